#!/usr/bin/env python3
"""Create /verif/seeded/own/<name>.diff from textual edits against /repo HEAD (reverted afterwards).
usage in python: from tools_mkpatch import mk; mk(name, [(file, old, new), ...])"""
import subprocess
def mk(name, edits, outdir='/verif/seeded/own'):
    for f, old, new in edits:
        s = open('/repo/' + f).read()
        assert old in s, (name, f, old[:50])
        open('/repo/' + f, 'w').write(s.replace(old, new, 1))
    d = subprocess.run(['git', '-C', '/repo', 'diff'], stdout=subprocess.PIPE, text=True).stdout
    open('%s/%s.diff' % (outdir, name), 'w').write(d)
    subprocess.run(['git', '-C', '/repo', 'checkout', '--', '.'])
