#!/usr/bin/env python3
"""Run the pinned baseline test command (guard off) and compare with /root/.vp/BASELINE.json."""
import json, subprocess, sys, os
env = dict(os.environ); env.update({"GOPROXY": "off", "GOSUMDB": "off", "GOTOOLCHAIN": "local"})
repo = sys.argv[1] if len(sys.argv) > 1 else "/repo"
r = subprocess.run(["go", "test", "-mod=mod", "-json", "-vet=off", "-count=1", "-timeout", "25m", "./..."], cwd=repo, env=env, stdout=subprocess.PIPE, stderr=subprocess.STDOUT, text=True)
passed = set()
for line in r.stdout.splitlines():
    try:
        e = json.loads(line)
    except ValueError:
        continue
    if e.get("Action") == "pass" and e.get("Test"):
        passed.add(e["Package"] + "::" + e["Test"])
base = set(json.load(open("/root/.vp/BASELINE.json"))["stable_pass"])
def norm(s):
    return s
missing = sorted(b for b in base if b not in passed and "*" not in b)
print("passed", len(passed), "baseline", len(base), "baseline-missing", len(missing))
for m in missing: print("  MISSING", m)
sys.exit(1 if missing else 0)
