#!/bin/bash
# usage: tools_try.sh <sed-expr> <file-in-repo> <PROP> [tier]   -- apply a one-line mutation, run the check, revert
set -u
cd /repo && sed -i "$1" "$2" && git diff --stat | tail -1
cd /verif && ./check "$3" "${4:-quick}" | grep -E "SUMMARY|VIOLATION|signature|INFRA|KNOWN" ; echo "rc=${PIPESTATUS[0]}"
git -C /repo checkout -- .
rm -f /verif/replays/*.json
