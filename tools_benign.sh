#!/bin/bash
# usage: tools_benign.sh <patch.diff (absolute)>  -- a behaviour-preserving change must not make any check alarm
# (scratch worktree via VERIF_REPO, binaries / evidence / replays of the run in a scratch dir via VERIF_SCRATCH)
set -u
M=$(mktemp -d /tmp/repo_mut.XXXXXX); rmdir $M
S=$(mktemp -d /tmp/vscr.XXXXXX)
git -C /repo worktree prune
git -C /repo worktree add -q --detach $M HEAD || exit 9
git -C $M apply "$1" || { echo "patch does not apply"; git -C /repo worktree remove --force $M; rm -rf $S; exit 9; }
(cd $M && GOFLAGS=-mod=mod GOPROXY=off GOSUMDB=off GOTOOLCHAIN=local go build ./... && go build -tags verif ./...) || { echo "DOES NOT COMPILE"; git -C /repo worktree remove --force $M; rm -rf $S; exit 9; }
bad=0
for P in C17 C20 C15 C16; do
  (cd /verif && VERIF_REPO=$M VERIF_SCRATCH=$S ./check $P quick > $S/benign_$P.txt 2>&1); rc=$?
  echo "$P rc=$rc $(grep -E 'SUMMARY' $S/benign_$P.txt | cut -c1-140)"
  if [ $rc -ne 0 ]; then bad=1; grep -E "VIOLATION|signature|INFRA" $S/benign_$P.txt | cut -c1-240; fi
done
git -C /repo worktree remove --force $M
rm -rf $S
echo "benign verdict: $([ $bad -eq 0 ] && echo NO-ALARM || echo ALARM)"
