#!/bin/bash
# usage: tools_benign.sh <patch.diff (absolute)>  -- a behaviour-preserving change must not make any check alarm
set -u
git -C /repo apply "$1" || { echo "patch does not apply"; exit 9; }
(cd /repo && GOFLAGS=-mod=mod GOPROXY=off GOSUMDB=off GOTOOLCHAIN=local go build ./... && go build -tags verif ./...) || { echo "DOES NOT COMPILE"; git -C /repo checkout -- .; exit 9; }
rm -rf /tmp/evidence.bak && cp -r /verif/evidence /tmp/evidence.bak
bad=0
for P in C17 C20 C15 C16; do
  (cd /verif && ./check $P quick > /tmp/benign_$P.txt 2>&1); rc=$?
  echo "$P rc=$rc $(grep -E 'SUMMARY' /tmp/benign_$P.txt | cut -c1-140)"
  if [ $rc -ne 0 ]; then bad=1; grep -E "VIOLATION|signature|INFRA" /tmp/benign_$P.txt | cut -c1-240; fi
done
git -C /repo checkout -- .
rm -rf /verif/evidence && mv /tmp/evidence.bak /verif/evidence
rm -f /verif/replays/*.json
echo "benign verdict: $([ $bad -eq 0 ] && echo NO-ALARM || echo ALARM)"
