#!/bin/bash
# usage: tools_benign.sh <patch.diff (absolute)>  -- a behaviour-preserving change must not make any check alarm
set -u
M=/tmp/repo_mut
git -C /repo worktree remove --force $M 2>/dev/null; git -C /repo worktree prune
git -C /repo worktree add -q $M HEAD || exit 9
git -C $M apply "$1" || { echo "patch does not apply"; git -C /repo worktree remove --force $M; exit 9; }
(cd $M && GOFLAGS=-mod=mod GOPROXY=off GOSUMDB=off GOTOOLCHAIN=local go build ./... && go build -tags verif ./...) || { echo "DOES NOT COMPILE"; git -C /repo worktree remove --force $M; exit 9; }
rm -rf /tmp/evidence.bak && cp -r /verif/evidence /tmp/evidence.bak
bad=0
for P in C17 C20 C15 C16; do
  (cd /verif && VERIF_REPO=$M ./check $P quick > /tmp/benign_$P.txt 2>&1); rc=$?
  echo "$P rc=$rc $(grep -E 'SUMMARY' /tmp/benign_$P.txt | cut -c1-140)"
  if [ $rc -ne 0 ]; then bad=1; grep -E "VIOLATION|signature|INFRA" /tmp/benign_$P.txt | cut -c1-240; fi
done
git -C /repo worktree remove --force $M
rm -rf /verif/evidence && mv /tmp/evidence.bak /verif/evidence
rm -f /verif/replays/*.json
echo "benign verdict: $([ $bad -eq 0 ] && echo NO-ALARM || echo ALARM)"
