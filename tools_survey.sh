#!/bin/bash
# usage: tools_survey.sh PROP RUNS_PER_PROC [SEED]  -- collect ALL violation signatures (no stop), for triage
P=$1; N=$2; S=${3:-5}
D=/verif/.work/survey-$P; rm -rf $D; mkdir -p $D
BIN=/verif/.build/dstsim; [ "$P" = C16 ] && BIN=/verif/.build/dstsim-race
for i in $(seq 0 15); do GOMAXPROCS=1 GORACE="halt_on_error=0 exitcode=0" $BIN batch -prop $P -seed $S -runs $N -first $((i*N)) -out $D -id $i -maxviol 1000000 >/dev/null 2>$D/err-$i.txt & done; wait
python3 - <<PY
import json,glob
sigs={}
for f in glob.glob('$D/viol*.json'):
    v=json.load(open(f))['violation']; sigs.setdefault(v['sig'],[]).append(f)
for s,fs in sorted(sigs.items(), key=lambda x:-len(x[1])): print(len(fs),s, fs[0])
runs=sum(json.load(open(f))['runs'] for f in glob.glob('$D/batch-*.json'))
print('runs',runs)
PY
grep -l . $D/err-*.txt | head
