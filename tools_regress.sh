#!/bin/bash
# re-run every seeded sub-agent change against the check that is recorded as catching it (three at a time, each in
# its own scratch worktree and scratch directory); table to seeded/REGRESSION.txt
cd /verif
: > /tmp/regress.txt
one() {
  d=$1; id=$(basename $d)
  P=$(python3 -c "
import json; m=json.load(open('$d/meta.json'))
o=m.get('detected_by_other_check')
c=(o or m['check'])['cmd'].split()[1]
if 'decided by the C16' in m.get('property',''): c='C16'
print(c)")
  out=$(timeout 2400 ./tools_patch.sh /verif/$d/patch.diff $P 2>&1)
  rc=$(echo "$out" | grep -o "rc=[0-9]*" | tail -1)
  sig=$(echo "$out" | grep "signature:" | head -1 | sed 's/  signature: //' | cut -c1-100)
  echo "$id $P $rc $sig" | tee -a /tmp/regress.txt
}
export -f one
ls -d seeded/c*-w*-m* | xargs -P 3 -I{} bash -c 'one {}'
sort /tmp/regress.txt > seeded/REGRESSION.txt
