//go:build race && linux

// Package raceorc is the data-race oracle: it reads the race detector's report count and captures
// the report text (the race runtime writes to fd 2) so that a report can be attributed to a run and
// turned into a signature.
package raceorc

import (
	"fmt"
	"io/ioutil"
	"os"
	"regexp"
	"runtime"
	"sort"
	"strings"
	"syscall"
)

const Enabled = true

var (
	capFile  *os.File
	origErr  *os.File
	readFrom int64
)

// CapturePath, if set before Init, names the file fd 2 is redirected into (so that a driver can
// read what a crashed process wrote); otherwise an unlinked temp file is used.
var CapturePath string

// Init redirects fd 2 into a file (the original stderr stays reachable through Stderr()).
func Init() error {
	if capFile != nil {
		return nil
	}
	var f *os.File
	var err error
	if p := os.Getenv("DSTSIM_FD2"); p != "" && CapturePath == "" {
		CapturePath = p
	}
	if CapturePath != "" {
		f, err = os.OpenFile(CapturePath, os.O_CREATE|os.O_RDWR|os.O_TRUNC, 0644)
	} else {
		f, err = ioutil.TempFile("", "dstsim-race-")
		if err == nil {
			os.Remove(f.Name())
		}
	}
	if err != nil {
		return err
	}
	fd, err := syscall.Dup(2)
	if err != nil {
		return err
	}
	origErr = os.NewFile(uintptr(fd), "stderr-orig")
	if err := syscall.Dup3(int(f.Fd()), 2, 0); err != nil {
		return err
	}
	capFile = f
	return nil
}

// Stderr is the process's original stderr.
func Stderr() *os.File {
	if origErr != nil {
		return origErr
	}
	return os.Stderr
}

func Errors() int { return runtime.RaceErrors() }

// Drain returns what was written to fd 2 since the last call.
func Drain() string {
	if capFile == nil {
		return ""
	}
	st, err := capFile.Stat()
	if err != nil {
		return ""
	}
	n := st.Size() - readFrom
	if n <= 0 {
		return ""
	}
	buf := make([]byte, n)
	capFile.ReadAt(buf, readFrom)
	readFrom = st.Size()
	return string(buf)
}

// Report is one parsed race report.
type Report struct {
	Text string
	Sig  string // sorted pair of the innermost dave/dst frames of the two accesses
	A, B string // "func file:line" of the two accesses' innermost dst frames
}

var frameRe = regexp.MustCompile(`(?m)^  (\S+)\(\)\n      (\S+):(\d+)`)

// Parse splits captured text into reports.
func Parse(text string) []Report {
	var out []Report
	for _, blk := range strings.Split(text, "==================") {
		if !strings.Contains(blk, "WARNING: DATA RACE") {
			continue
		}
		// the two access stacks come first; goroutine creation stacks follow after "Goroutine N ("
		body := blk
		if i := strings.Index(body, "\nGoroutine "); i >= 0 {
			body = body[:i]
		}
		parts := regexp.MustCompile(`(?m)^(Previous )?(read|write|Read|Write|atomic read|atomic write|Atomic read|Atomic write)[^\n]*by [^\n]*:\n`).Split(body, -1)
		var sides []string
		for _, p := range parts[1:] {
			side := "outside-dst"
			for _, m := range frameRe.FindAllStringSubmatch(p, -1) {
				if strings.Contains(m[1], "github.com/dave/dst") && !strings.Contains(m[1], "github.com/dave/dst/verifyield") {
					fn := strings.TrimPrefix(strings.TrimPrefix(m[1], "github.com/dave/dst/"), "github.com/dave/dst")
					file := m[2]
					if j := strings.Index(file, "/.build/inst/"); j >= 0 {
						file = file[j+13:]
					} else if j := strings.Index(file, "/repo/"); j >= 0 {
						file = file[j+6:]
					}
					side = fmt.Sprintf("%s@%s", fn, file)
					break
				}
			}
			sides = append(sides, side)
		}
		for len(sides) < 2 {
			sides = append(sides, "unknown")
		}
		sides = sides[:2]
		a, b := sides[0], sides[1]
		sort.Strings(sides)
		out = append(out, Report{Text: strings.TrimSpace(blk), Sig: sides[0] + "<->" + sides[1], A: a, B: b})
	}
	return out
}
