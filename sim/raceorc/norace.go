//go:build !race || !linux

package raceorc

import (
	"errors"
	"os"
)

const Enabled = false

var CapturePath string

func Init() error {
	return errors.New("this binary was built without -race: the data-race oracle is unavailable")
}

func Stderr() *os.File { return os.Stderr }
func Errors() int      { return 0 }
func Drain() string    { return "" }

type Report struct {
	Text, Sig, A, B string
}

func Parse(string) []Report { return nil }
