// Package gen synthesises import-rich, gofmt-canonical Go source files from the choice tape.
// The files need not type-check (the syntax-based resolver never type-checks); they must parse and
// be fixed points of go/format, which Source guarantees by formatting what it generates.
package gen

import (
	"fmt"
	"go/format"
	"strings"

	"verifsim/tape"
)

// Pkg is an importable package of the simulated universe.
type Pkg struct {
	Path string
	Name string
}

// Pool is the universe of import paths. Several share a name (alias conflicts), several have a
// name that cannot be guessed from the path.
var Pool = []Pkg{
	{"fmt", "fmt"},
	{"os", "os"},
	{"io", "io"},
	{"bytes", "bytes"},
	{"strings", "strings"},
	{"net/http", "http"},
	{"go/ast", "ast"},
	{"text/template", "template"},
	{"html/template", "template"},
	{"a.com/x", "x"},
	{"b.com/x", "x"},
	{"c.org/deep/x", "x"},
	{"github.com/foo/bar-go", "bar"},
	{"gopkg.in/yaml.v2", "yaml"},
	{"d.io/util", "util"},
	{"e.net/lib/util", "util"},
	{"f.dev/v2", "f"},
	{"github.com/Sirupsen/logrus", "logrus"}, // equal up to case: ties under any case-folding order
	{"github.com/sirupsen/logrus", "logrus"},
	{"github.com/kardianos/govendor/context", "context"}, // an element that merely ENDS in "vendor": not a vendor path
	{"h.io/myvendor", "myvendor"},
	{"example.com/tools/vendor", "vendor"}, // the LAST element is called vendor: still not a vendored path
	{"k8s.example/api/core/v9", "v9"},      // a package that really is called like its version element (API groups; v9 because generated declarations are called v1, v2, ...)
	{"h.io/go-cmp/cmp", "cmp"},
	{"root/vendor/g.com/vend", "vend"},
	{"root/vendor/g.com/other", "other"},
	{"m3/vendor/v.org/lib", "lib"},
	{"vendor/w.net/top", "top"},
}

// NumPlain is the number of leading Pool entries that are not imported through a vendor directory;
// edit scripts and Alias maps only use those (dst strips vendor prefixes when it decorates, never
// when it restores).
var NumPlain = len(Pool) - 4

// ConflictIdx indexes the Pool entries that share a package name with another entry.
var ConflictIdx = []int{7, 8, 9, 10, 11, 14, 15, 17, 18}

// Truth is the accurate path -> name map of the universe (vendor-stripped path included).
func Truth() map[string]string {
	m := map[string]string{}
	for _, p := range Pool {
		m[p.Path] = p.Name
	}
	m["g.com/vend"] = "vend"
	m["g.com/other"] = "other"
	m["v.org/lib"] = "lib"
	m["w.net/top"] = "top"
	// two vendored copies of one package, with different names, and no exact entry for it
	m["m1/vendor/v.io/dup"] = "dupa"
	m["m2/vendor/v.io/dup"] = "dupb"
	return m
}

// Import is one import spec of a generated file.
type Import struct {
	Pkg   Pkg
	Alias string // "", "_", "." or a name
}

// LocalName is the name the package is referred to by in the file.
func (i Import) LocalName() string {
	if i.Alias != "" {
		return i.Alias
	}
	return i.Pkg.Name
}

// Spec describes a generated file.
type Spec struct {
	PkgName string
	Imports []Import
	Cgo     bool
	Src     string // canonical source
	Dot     bool   // has a dot import (goast refuses those: a natural fault)
	Decls   int
}

// Options bias the generator.
type Options struct {
	MaxImports  int
	MaxDecls    int
	AllowDot    bool
	AllowCgo    bool
	Conflicts   bool // bias towards equal package names
	NoBlank     bool
	NoAliases   bool
	NoGuessTrap bool // avoid packages whose name cannot be guessed from the path and vendor paths
	UseAll      bool // reference every non-blank import at least once (a compilable file has no unused import)
	NoVendor    bool // never import through a vendor path (dst rewrites those by design)
	PkgName     string
	NoTrailing  bool // no comment after the last declaration
}

var exported = []string{"Foo", "Bar", "New", "Client", "Reader", "Writer", "Print", "Open", "Do", "T", "Err", "Max"}
var locals = []string{"a", "b", "c", "v", "w", "n", "s", "t", "err", "buf", "ok", "i", "j"}

type g struct {
	nlabel int
	t      *tape.Tape
	refd   map[string]bool // local names of imports the generated code already refers to
	usable []Import        // imports that can be referenced by name
	nfunc  int
	ntype  int
	nvar   int
	sb     strings.Builder
}

func (g *g) pick(ss []string) string { return ss[g.t.Draw(len(ss))] }

// q returns a qualified identifier text such as "fmt.Foo", or a local name if no import is usable.
func (g *g) q() string {
	if len(g.usable) == 0 {
		return g.pick(locals)
	}
	im := g.usable[g.t.Draw(len(g.usable))]
	if g.refd == nil {
		g.refd = map[string]bool{}
	}
	g.refd[im.LocalName()] = true
	return im.LocalName() + "." + g.pick(exported)
}

// qt returns a type expression built around a qualified identifier.
func (g *g) qt() string {
	switch g.t.Draw(12) {
	case 0:
		return "*" + g.q()
	case 1:
		return "[]" + g.q()
	case 2:
		return fmt.Sprintf("map[%s]%s", g.q(), g.q())
	case 3:
		return "chan<- " + g.q()
	case 4:
		return fmt.Sprintf("func(%s, ...%s) (%s, error)", g.q(), g.q(), g.q())
	case 5:
		return g.q() + "[int, " + g.q() + "]"
	case 6:
		return fmt.Sprintf("struct {\n%s // embedded\nX, Y %s `json:\"x\"`\n}", g.q(), g.q())
	case 7:
		return fmt.Sprintf("interface {\n%s\n~int | %s\n}", g.q(), g.q())
	case 8:
		return fmt.Sprintf("[%s]%s", g.q(), g.q())
	}
	return g.q()
}

func (g *g) comment() string {
	words := []string{"TODO", "note", "fixme", "returns the value", "see below", "x", "deprecated", "nolint"}
	return g.pick(words)
}

func (g *g) expr(depth int) string {
	n := 15
	if depth > 2 {
		n = 4
	}
	switch g.t.Draw(n) {
	case 0:
		switch g.t.Draw(7) {
		case 0:
			return g.q() + "." + g.pick(exported) // pkg.Foo.Bar: Sel of a selector whose X is itself a selector
		case 1:
			return fmt.Sprintf("%s().%s", g.q(), g.pick(exported)) // f().x
		case 2:
			return fmt.Sprintf("%s.%s.%s", g.pick(locals), g.pick(locals), g.pick(exported)) // a.b.C on locals
		case 3:
			return fmt.Sprintf("%s[%d].%s", g.q(), g.t.Draw(4), g.pick(exported))
		case 4:
			// the selector on the line after the dot
			return strings.Replace(g.q(), ".", ".\n", 1)
		}
		return g.q()
	case 1:
		return g.pick(locals)
	case 2:
		return fmt.Sprintf("%d", g.t.Draw(100))
	case 3:
		return fmt.Sprintf("%q", g.pick(exported))
	case 4:
		return fmt.Sprintf("%s(%s)", g.q(), g.expr(depth+1))
	case 5:
		return fmt.Sprintf("%s{%s: %s}", g.q(), g.pick(exported), g.expr(depth+1))
	case 6:
		return fmt.Sprintf("%s + %s", g.expr(depth+1), g.expr(depth+1))
	case 7:
		return fmt.Sprintf("&%s{}", g.q())
	case 8:
		return fmt.Sprintf("func(%s %s) %s { return %s }", g.pick(locals), g.q(), g.q(), g.expr(depth+1))
	case 9:
		return fmt.Sprintf("%s.(%s)", g.pick(locals), g.qt())
	case 10:
		return fmt.Sprintf("(%s)(%s)[%s:%s]", g.qt(), g.expr(depth+1), g.q(), g.pick(locals))
	case 11:
		return fmt.Sprintf("(*%s).%s", g.q(), g.pick(exported))
	case 12:
		return fmt.Sprintf("<-%s + -%s", g.q(), g.q())
	case 13:
		// qualified identifiers as composite-literal KEYS (map keys, array indices)
		return fmt.Sprintf("map[%s]int{%s: 1, %s: %s}", g.q(), g.q(), g.q(), g.expr(depth+1))
	default:
		return fmt.Sprintf("[...]string{%s: \"x\", %s + 1: \"y\"}", g.q(), g.q())
	}
}

func (g *g) stmt(depth int) string {
	n := 17
	if depth > 2 {
		n = 5
	}
	switch g.t.Draw(n) {
	case 16:
		// a forward goto: the label's declaration (the whole labelled statement) is reached through
		// the identifier's Object before the statement itself is
		g.nlabel++
		return fmt.Sprintf("goto L%d\n%s(%s)\nL%d:\n%s(%s, %s)\nif %s {\ngoto L%d\n}", g.nlabel, g.q(), g.expr(1), g.nlabel, g.q(), g.q(), g.expr(1), g.pick(locals), g.nlabel)
	case 14:
		// a multi-line call whose last argument is a qualified identifier followed by an own-line comment
		// (go/printer keeps the comment with the arguments if it was written indented, and puts it
		// at the closer's indentation if it was written at the margin: both are canonical)
		ind := []string{"\t\t\t\t", "\t\t\t\t", ""}[g.t.Draw(3)]
		return fmt.Sprintf("%s(\n%s,\n%s,\n%s// %s\n)", g.q(), g.expr(1), g.q(), ind, g.comment())
	case 15:
		return fmt.Sprintf("_ = %s{\n%s: %s,\n// %s\n%s: %s, // %s\n// %s\n}", g.q(), g.pick(exported), g.q(), g.comment(), g.pick(exported), g.q(), g.comment(), g.comment())
	case 0:
		return fmt.Sprintf("%s(%s)", g.q(), g.expr(1))
	case 1:
		return fmt.Sprintf("%s := %s\n_ = %s", g.pick(locals), g.expr(1), g.pick(locals))
	case 2:
		return fmt.Sprintf("var %s %s\n_ = %s", g.pick(locals), g.q(), g.pick(locals))
	case 3:
		return fmt.Sprintf("// %s\n%s(%s)", g.comment(), g.q(), g.expr(1))
	case 4:
		return fmt.Sprintf("%s(%s) // %s", g.q(), g.expr(1), g.comment())
	case 5:
		return fmt.Sprintf("if %s := (%s); %s != nil {\n%s\n}", "err", g.expr(1), "err", g.stmt(depth+1))
	case 6:
		return fmt.Sprintf("for %s := range (%s) {\n%s\n}", g.pick(locals), g.expr(1), g.stmt(depth+1))
	case 7:
		ind := []string{"\t\t\t\t\t\t", ""}[g.t.Draw(2)]
		return fmt.Sprintf("switch %s := %s.(type) {\ncase %s:\n%s\ncase *%s:\n%s// %s\ndefault:\n_ = %s\n}", "v", g.pick(locals), g.q(), g.stmt(depth+1), g.q(), ind, g.comment(), "v")
	case 8:
		// a local that shadows a package name: must not be resolved as a qualified identifier
		if len(g.usable) > 0 {
			im := g.usable[g.t.Draw(len(g.usable))]
			return fmt.Sprintf("{\n%s := %s\n_ = %s.%s\n}", im.LocalName(), g.pick(locals), im.LocalName(), g.pick(exported))
		}
		return "_ = 0"
	case 9:
		// clauses without statements whose only content is a hanging comment (comm and case alike).
		// go/printer keeps such a comment inside the clause if it was written indented and at the
		// clause keyword's column if it was written at the margin: both are canonical.
		ind := []string{"\t\t\t\t\t\t", "\t\t\t\t\t\t", ""}[g.t.Draw(3)]
		switch g.t.Draw(3) {
		case 1:
			return fmt.Sprintf("select {\ncase %s <- %s:\n%s// %s\ncase <-%s:\n%s// %s\n%s// %s\ndefault:\n// %s\n%s(%s)\n}\nswitch {\ncase %s:\n%s// %s\ndefault:\n%s()\n}",
				g.pick(locals), g.expr(1), ind, g.comment(), g.pick(locals), ind, g.comment(), ind, g.comment(), g.comment(), g.q(), g.expr(1), g.pick(locals), ind, g.comment(), g.q())
		case 2:
			return fmt.Sprintf("select {\ncase <-%s:\n%s// %s\n}", g.pick(locals), ind, g.comment())
		}
		return fmt.Sprintf("select {\ncase %s := <-%s:\n_ = %s\n%s\ndefault:\n}", "v", g.pick(locals), "v", g.stmt(depth+1))
	case 10:
		return fmt.Sprintf("defer %s(%s)\n\ngo %s()", g.q(), g.expr(1), g.q())
	case 11:
		return fmt.Sprintf("/* %s */\nreturn", g.comment())
	case 12:
		// a comment and a raw string that span lines (their inner lines must not become spacing)
		return fmt.Sprintf("/* %s\n\n   %s */\n%s := `a\n\nb`\n_ = %s", g.comment(), g.comment(), "s", "s")
	default:
		return fmt.Sprintf("_ = %s\n\n\n/*\n%s\n*/", g.expr(1), g.comment())
	}
}

func (g *g) decl() string {
	switch g.t.Draw(14) {
	case 12:
		g.ntype++
		return fmt.Sprintf("// G%d is generic.\ntype G%d[T %s, U interface{ ~int | %s }] struct {\nitems []T\nother U\n}", g.ntype, g.ntype, g.q(), g.q())
	case 13:
		g.ntype++
		g.nfunc++
		return fmt.Sprintf("type H%d[K comparable, V %s] map[K]V\n\nfunc (h H%d[K, V]) get%d(k K) V { return h[k] }", g.ntype, g.q(), g.ntype, g.nfunc)
	case 10:
		// trailing /* */ comments on specs with fewer cells than their neighbours (column alignment)
		g.nvar++
		return fmt.Sprintf("const (\nk%da int = iota /* %s */\nk%db /* %s */\nk%dlonger /* %s */\nk%dc = %s // %s\n)", g.nvar, g.comment(), g.nvar, g.comment(), g.nvar, g.comment(), g.nvar, g.q(), g.comment())
	case 11:
		g.ntype++
		return fmt.Sprintf("type S%d struct {\n%s /* %s */\nname string /* %s */\n*%s /* %s */\nlongerName map[string]%s // %s\n}", g.ntype, g.q(), g.comment(), g.comment(), g.q(), g.comment(), g.q(), g.comment())
	case 9:
		g.nvar++
		return fmt.Sprintf("/*\nblock %s\n\nend\n*/\n\nvar v%d = `x\n\n\ny`", g.comment(), g.nvar)
	case 0:
		g.nvar++
		return fmt.Sprintf("var v%d = %s", g.nvar, g.expr(0))
	case 1:
		g.nvar++
		return fmt.Sprintf("// v%d is a variable.\n// %s\nvar v%d %s = %s", g.nvar, g.comment(), g.nvar, g.qt(), g.expr(0))
	case 2:
		g.ntype++
		return fmt.Sprintf("// T%d %s\ntype T%d struct {\nA %s // %s\nB *%s\n\n// %s\nC map[string]%s\n}", g.ntype, g.comment(), g.ntype, g.qt(), g.comment(), g.q(), g.comment(), g.qt())
	case 3:
		g.ntype++
		return fmt.Sprintf("type T%d interface {\n%s\nM(%s) %s\n}", g.ntype, g.q(), g.q(), g.q())
	case 4:
		g.nvar++
		return fmt.Sprintf("const (\nc%da = iota // %s\nc%db\n\n// %s\nc%dc = %s\n)", g.nvar, g.comment(), g.nvar, g.comment(), g.nvar, g.q())
	case 5:
		g.nfunc++
		return fmt.Sprintf("func g%d[T any, U %s](p0 T, p1 U) %s[T] {\nreturn %s[T, U]{}\n}", g.nfunc, g.q(), g.q(), g.q()) // parameter names must not shadow a package name
	case 6:
		g.nfunc++
		g.ntype++
		return fmt.Sprintf("type R%d %s\n\n// m%d does things.\nfunc (r *R%d) m%d(p %s, q ...%s) (res %s, err error) {\n%s\nreturn\n}", g.ntype, g.qt(), g.nfunc, g.ntype, g.nfunc, g.qt(), g.q(), g.qt(), g.stmt(0))
	default:
		g.nfunc++
		n := 1 + g.t.Draw(4)
		var body []string
		for i := 0; i < n; i++ {
			body = append(body, g.stmt(0))
			if g.t.Bool(1, 3) {
				body = append(body, "")
			}
		}
		doc := ""
		if g.t.Bool(1, 2) {
			doc = fmt.Sprintf("// f%d %s\n", g.nfunc, g.comment())
		}
		return fmt.Sprintf("%sfunc f%d(%s %s, %s %s) %s {\n%s\n}", doc, g.nfunc, g.pick(locals[:4]), g.q(), g.pick(locals[4:8]), g.q(), g.q(), strings.Join(body, "\n"))
	}
}

// Source generates one file.
func Source(t *tape.Tape, opt Options) Spec {
	if opt.MaxImports == 0 {
		opt.MaxImports = 6
	}
	if opt.MaxDecls == 0 {
		opt.MaxDecls = 6
	}
	g := &g{t: t}
	sp := Spec{PkgName: []string{"main", "p", "lib"}[t.Draw(3)]}
	if opt.PkgName != "" {
		sp.PkgName = opt.PkgName
	}

	nimp := t.Draw(opt.MaxImports + 1)
	used := map[string]bool{}
	names := map[string]bool{}
	for len(sp.Imports) < nimp {
		var p Pkg
		if opt.Conflicts && t.Bool(2, 3) {
			// packages called x / util / template
			p = Pool[ConflictIdx[t.Draw(len(ConflictIdx))]]
		} else {
			p = Pool[t.Draw(len(Pool))]
		}
		if opt.NoGuessTrap {
			switch p.Path {
			case "github.com/foo/bar-go", "gopkg.in/yaml.v2", "f.dev/v2", "root/vendor/g.com/vend":
				p = Pool[t.Draw(12)]
			}
		}
		if opt.NoVendor && (strings.Contains(p.Path, "/vendor/") || strings.HasPrefix(p.Path, "vendor/")) {
			p = Pool[t.Draw(12)]
		}
		if used[p.Path] {
			nimp--
			continue
		}
		used[p.Path] = true
		im := Import{Pkg: p}
		switch k := t.Draw(12); {
		case k == 0 && !opt.NoBlank:
			im.Alias = "_"
		case k == 1 && opt.AllowDot:
			im.Alias = "."
			sp.Dot = true
		case (k == 2 || k == 3) && !opt.NoAliases:
			im.Alias = []string{"al", "pk", "z" + p.Name, p.Name}[t.Draw(4)]
		}
		if im.Alias != "_" && im.Alias != "." {
			if names[im.LocalName()] {
				// name conflict in the source: must alias to keep the file well-formed
				if opt.NoAliases {
					nimp--
					delete(used, p.Path)
					continue
				}
				im.Alias = fmt.Sprintf("%sq%d", p.Name, len(sp.Imports)) // never collides with a generated declaration name
			}
			names[im.LocalName()] = true
			g.usable = append(g.usable, im)
		}
		sp.Imports = append(sp.Imports, im)
	}
	if opt.AllowCgo && t.Bool(1, 8) {
		sp.Cgo = true
	}

	sb := &g.sb
	if t.Bool(1, 3) {
		fmt.Fprintf(sb, "// Package %s is generated.\n", sp.PkgName)
		if t.Bool(1, 3) {
			fmt.Fprintf(sb, "//\n// %s\n", g.comment())
		}
	} else if t.Bool(1, 6) {
		fmt.Fprintf(sb, "// +build linux\n\n")
	} else if t.Bool(1, 6) {
		// the header tools put on generated files (such files are edited too: renames, regenerated parts)
		fmt.Fprintf(sb, "// Code generated by protoc-gen-sim. DO NOT EDIT.\n\n")
	}
	fmt.Fprintf(sb, "package %s\n\n", sp.PkgName)
	cgoInGroup := false
	if sp.Cgo {
		if len(sp.Imports) >= 1 && t.Bool(1, 3) {
			cgoInGroup = true // "C" as one spec of the import group, its preamble as the spec's doc comment
		} else {
			sb.WriteString("// #include <stdio.h>\nimport \"C\"\n\n")
		}
	}
	spec := func(im Import) string {
		s := fmt.Sprintf("%q", im.Pkg.Path)
		if im.Alias != "" {
			s = im.Alias + " " + s
		}
		if t.Bool(1, 8) {
			s += " // " + g.comment()
		}
		return s
	}
	if t.Bool(1, 12) {
		// an import declaration without specs: empty, or with its only import commented out
		if t.Bool(1, 2) {
			sb.WriteString("import ()\n\n")
		} else {
			sb.WriteString("import (\n// \"os\"\n)\n\n")
		}
	}
	switch {
	case cgoInGroup:
		sb.WriteString("import (\n// #include <stdlib.h>\n\"C\"\n")
		for _, im := range sp.Imports {
			sb.WriteString(spec(im) + "\n")
		}
		sb.WriteString(")\n\n")
	case len(sp.Imports) == 0:
	case len(sp.Imports) == 1 && t.Bool(1, 2):
		fmt.Fprintf(sb, "import %s\n\n", spec(sp.Imports[0]))
	case len(sp.Imports) >= 2 && t.Bool(1, 6):
		// one declaration per import, each with its own comment (several import declarations can
		// then become empty in one restore)
		for i, im := range sp.Imports {
			fmt.Fprintf(sb, "// import %d: %s\nimport %s\n\n", i, g.comment(), spec(im))
		}
	default:
		// one or two blocks
		split := len(sp.Imports)
		if len(sp.Imports) > 2 && t.Bool(1, 4) {
			split = 1 + t.Draw(len(sp.Imports)-1)
		}
		if t.Bool(1, 4) {
			fmt.Fprintf(sb, "// first imports: %s\n", g.comment())
		}
		sb.WriteString("import (\n")
		for i, im := range sp.Imports[:split] {
			if i > 0 && t.Bool(1, 5) {
				sb.WriteString("\n")
			}
			sb.WriteString(spec(im) + "\n")
		}
		sb.WriteString(")\n\n")
		if split < len(sp.Imports) {
			if t.Bool(1, 3) {
				fmt.Fprintf(sb, "// more imports: %s\n", g.comment())
			}
			sb.WriteString("import (\n")
			for _, im := range sp.Imports[split:] {
				sb.WriteString(spec(im) + "\n")
			}
			sb.WriteString(")\n\n")
		}
	}
	nd := 1 + t.Draw(opt.MaxDecls)
	sp.Decls = nd
	for i := 0; i < nd; i++ {
		sb.WriteString(g.decl())
		sb.WriteString("\n\n")
	}
	if opt.UseAll && len(g.usable) > 0 {
		sb.WriteString("var (\n")
		n := 0
		for _, im := range g.usable {
			if g.refd[im.LocalName()] && t.Bool(2, 3) {
				continue // already referred to by a declaration above (possibly only there, e.g. in a type constraint)
			}
			fmt.Fprintf(sb, "_ = %s.%s\n", im.LocalName(), g.pick(exported))
			n++
		}
		if n == 0 {
			sb.WriteString("_ = 0\n")
		}
		sb.WriteString(")\n\n")
	}
	if opt.UseAll && sp.Dot {
		// a dot-import is used through bare identifiers
		fmt.Fprintf(sb, "var _ = %s\n\n", g.pick(exported))
	}
	if t.Bool(1, 6) && !opt.NoTrailing {
		sb.WriteString("// trailing comment\n")
	}
	out, err := format.Source([]byte(sb.String()))
	if err != nil {
		panic(fmt.Sprintf("gen: generated source does not parse: %v\n%s", err, sb.String()))
	}
	sp.Src = string(out)
	return sp
}
