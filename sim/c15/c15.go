// Package c15 decides the fault-derivable part of C15: every input that storage faults derive from
// a corpus of stored Go sources (truncation, bit flips, zeroed / garbage / dropped / duplicated /
// swapped ranges, composed), and every run-time reader / writer failure, goes through every parse
// and print entry point without a panic; errors are reported through the error result.
package c15

import (
	"bytes"
	"errors"
	"fmt"
	"go/ast"
	"go/parser"
	"go/token"
	"io"
	"io/ioutil"
	"os"
	"path/filepath"
	"sort"
	"strings"

	"github.com/dave/dst"
	"github.com/dave/dst/decorator"
	"github.com/dave/dst/decorator/resolver/goast"
	"github.com/dave/dst/decorator/resolver/guess"

	"verifsim/core"
	"verifsim/corpus"
	"verifsim/dump"
	"verifsim/faults"
	"verifsim/gen"
)

const LocalPath = "sim.local/pkg"

const (
	ePlainParse      = iota // decorator.Parse
	eParseFile              // decorator.ParseFile with a caller FileSet and a parser mode
	eManagedGoast           // Decorator with imports, goast.New()
	eManagedGuess           // Decorator with imports, goast over guess.WithMap
	eReuse                  // one Decorator parses a good file, then the faulted one
	eDecorateFile           // go/parser first, then decorator.DecorateFile on whatever it returned
	eParseDir               // decorator.ParseDir on a scratch directory holding the faulted bytes
	eDecorateNodes          // go/parser first, then decorator.Decorate on every top-level declaration separately
	eManagedParseDir        // a Decorator with import management (goast) parsing a scratch directory
	numEntries
)

var entryNames = [...]string{"Parse", "ParseFile", "managed(goast.New)", "managed(goast/guess)", "reused-Decorator", "DecorateFile", "ParseDir", "Decorate(each decl)", "managed ParseDir(goast)"}

func managed(e int) bool { return e == eManagedGoast || e == eManagedGuess || e == eManagedParseDir }

func isDir(e int) bool { return e == eParseDir || e == eManagedParseDir }

var modes = []parser.Mode{0, parser.ParseComments, parser.AllErrors, parser.SkipObjectResolution, parser.ImportsOnly, parser.PackageClauseOnly, parser.DeclarationErrors | parser.AllErrors}

type streamFault struct {
	srcKind  int // 0 string, 1 []byte, 2 reader
	readFail int // <0 none
	chunk    int
	eofWith  bool
	writeAt  int // <0 none
	short    bool
}

type evalCfg struct {
	entry   int
	mode    parser.Mode
	preload bool // caller FileSet already holds another file (base != 1)
	sf      streamFault
	extras  bool
	label   string
}

const goodFile = "package good\n\nimport \"fmt\"\n\n// F prints.\nfunc F() { fmt.Println(\"x\") }\n"

// Run executes one C15 run: one stored source, many faulted evaluations of it.
func Run(run *core.Run) {
	t := run.T
	var name, src string
	if t.Bool(1, 2) {
		fs := corpus.Files()
		f := fs[t.Draw(len(fs))]
		name, src = "corpus:"+f.Name, f.Src
	} else {
		sp := gen.Source(t, gen.Options{MaxImports: 5, MaxDecls: 5, AllowDot: true, AllowCgo: true, Conflicts: t.Bool(1, 3)})
		name, src = "generated", sp.Src
	}
	data := []byte(src)
	mode := t.Draw(9) // 0,1: exhaustive truncation; 2: reader faults; 3: writer faults; 8: comment sweep; else sampled storage faults
	if (mode <= 1 || mode == 8) && len(data) > 3000 {
		mode = 4
	}
	run.Describe("stored source %s (%d bytes)", name, len(data))
	if len(data) <= 1500 {
		run.Describe("%s", src)
	}
	base := evalCfg{entry: t.Draw(numEntries), mode: modes[t.Draw(len(modes))], preload: t.Bool(1, 2), extras: t.Bool(1, 6)}
	base.sf = streamFault{srcKind: t.Draw(3), readFail: -1, writeAt: -1}
	switch {
	case mode <= 1:
		if isDir(base.entry) {
			base.entry = eParseFile // keep the exhaustive sweep off the real file system
		}
		run.Describe("exhaustive truncation at every byte offset through %s", entryNames[base.entry])
		run.Count("exhaustive-truncation-sweeps")
		for k := 0; k <= len(data) && !run.Failed(); k++ {
			c := base
			c.label = fmt.Sprintf("truncate@%d", k)
			evaluate(run, name, data[:k], data, c)
			run.Count("fault-fired/truncate")
		}
	case mode == 8:
		if isDir(base.entry) {
			base.entry = eParseFile
		}
		offs := faults.TokenOffsets(data)
		ci := t.Draw(len(faults.CommentTexts))
		run.Describe("comment %q inserted at every one of %d token boundaries through %s", faults.CommentTexts[ci], len(offs), entryNames[base.entry])
		run.Count("comment-sweeps")
		for _, k := range offs {
			if run.Failed() {
				break
			}
			c := base
			c.label = fmt.Sprintf("comment@%d=%q", k, faults.CommentTexts[ci])
			in := append(append(append([]byte(nil), data[:k]...), faults.CommentTexts[ci]...), data[k:]...)
			evaluate(run, name, in, data, c)
			run.Count("fault-fired/comment-insert")
		}
	case mode == 2:
		run.Describe("reader faults through %s", entryNames[base.entry])
		step := 1 + len(data)/64
		for k := 0; k <= len(data) && !run.Failed(); k += step {
			c := base
			c.sf.srcKind = 2
			c.sf.readFail = k
			c.sf.chunk = []int{0, 1, 7, 512}[t.Draw(4)]
			c.label = fmt.Sprintf("reader-error@%d chunk=%d", k, c.sf.chunk)
			evaluate(run, name, data, data, c)
		}
		for _, chunk := range []int{1, 3, 4096} {
			c := base
			c.sf.srcKind = 2
			c.sf.chunk = chunk
			c.sf.eofWith = true
			c.label = fmt.Sprintf("reader n>0,EOF chunk=%d", chunk)
			evaluate(run, name, data, data, c)
			run.Count("fault-fired/reader-eof-with-data")
		}
	case mode == 3:
		run.Describe("writer faults through %s", entryNames[base.entry])
		step := 1 + len(data)/48
		for k := 0; k <= len(data)+16 && !run.Failed(); k += step {
			c := base
			c.sf.writeAt = k
			c.sf.short = t.Bool(1, 2)
			c.label = fmt.Sprintf("writer-error@%d short=%v", k, c.sf.short)
			evaluate(run, name, data, data, c)
		}
	default:
		n := 24
		for i := 0; i < n && !run.Failed(); i++ {
			c := base
			c.entry = t.Draw(numEntries)
			c.mode = modes[t.Draw(len(modes))]
			c.sf.srcKind = t.Draw(3)
			c.sf.chunk = []int{0, 0, 1, 5}[t.Draw(4)]
			nf := 1 + t.Draw(3)
			cur := data
			var labels []string
			for j := 0; j < nf; j++ {
				kind := t.Draw(faults.NumStorageFaults)
				var l string
				cur, l = faults.Corrupt(t, cur, kind)
				labels = append(labels, l)
				if !strings.HasPrefix(l, "noop") {
					run.Count("fault-fired/" + faults.StorageFaultNames[kind])
				}
			}
			if nf > 1 {
				run.Count("composed-fault-inputs")
			}
			c.label = strings.Join(labels, "+")
			evaluate(run, name, cur, data, c)
		}
	}
}

type parseResult struct {
	files []*dst.File
	err   error
	fset  *token.FileSet
}

func makeSrc(data []byte, sf streamFault, rerr error) (interface{}, *faults.Reader) {
	switch sf.srcKind {
	case 0:
		return string(data), nil
	case 1:
		return append([]byte(nil), data...), nil
	default:
		r := &faults.Reader{Data: data, FailAt: sf.readFail, Err: rerr, Chunk: sf.chunk, EOFWith: sf.eofWith}
		return r, r
	}
}

func newFset(preload bool) *token.FileSet {
	fset := token.NewFileSet()
	if preload {
		f := fset.AddFile("earlier.go", -1, 1234)
		f.SetLines([]int{0, 10, 500})
	}
	return fset
}

// evaluate runs one faulted input through one entry point and all printers.
func evaluate(run *core.Run, name string, data, stored []byte, c evalCfg) {
	run.Add("evaluations", 1)
	nontrivial := !bytes.Equal(data, stored) || c.sf.readFail >= 0 || c.sf.writeAt >= 0 || c.sf.eofWith
	if nontrivial {
		run.Case(fmt.Sprintf("%s|%d|%d|%v|%d|%d", dump.HashString(string(data)), c.entry, c.mode, c.preload, c.sf.readFail, c.sf.writeAt))
	}
	prefix := "plain"
	if managed(c.entry) {
		prefix = "managed"
	}
	if isDir(c.entry) {
		prefix = "dir"
	}
	readErr := faults.NewSentinel("reader")
	src, rd := makeSrc(data, c.sf, readErr)

	// independent oracle for "is this input erroneous": go/parser itself, same mode, same bytes
	var parserErr error
	{
		om := c.mode
		if c.entry == ePlainParse {
			om = 0 // decorator.Parse takes no mode
		}
		_, parserErr = parser.ParseFile(token.NewFileSet(), "f.go", data, om|parser.ParseComments)
	}

	var res parseResult
	pi := core.Catch(func() { res = parseVia(c, src, data) })
	ev := fmt.Sprintf("eval %s %s %s len=%d err=%v files=%d", entryNames[c.entry], c.label, dump.HashString(string(data)), len(data), res.err != nil, len(res.files))
	run.Event("%s", ev)
	if pi != nil {
		run.Fail("c15/parse/panic", prefix+"|"+pi.Sig(), "%s of %s with %s panicked: %s\ninput (%d bytes): %q\n%s", entryNames[c.entry], name, c.label, pi.Value, len(data), clip(data), pi.Stack)
		return
	}
	readerFired := rd != nil && rd.Fired > 0
	if readerFired {
		run.Count("fault-fired/reader-error")
	}
	if res.err == nil && len(res.files) == 0 && !isDir(c.entry) {
		run.Fail("c15/parse/nil-nil", prefix, "%s with %s returned neither a tree nor an error", entryNames[c.entry], c.label)
		return
	}
	for _, f := range res.files {
		if f == nil {
			run.Fail("c15/parse/nil-nil", prefix+"|nil-file", "%s with %s returned a nil file", entryNames[c.entry], c.label)
			return
		}
	}
	if readerFired {
		if res.err == nil {
			run.Fail("c15/parse/no-error", prefix+"|reader", "%s: the reader failed (%s) but no error was returned", entryNames[c.entry], c.label)
			return
		}
		if !errors.Is(res.err, readErr) && !isDir(c.entry) {
			run.Fail("c15/parse/reader-error-lost", prefix, "%s: the reader's error is not what came back: %v", entryNames[c.entry], res.err)
			return
		}
		if len(res.files) > 0 {
			run.Count("tree-despite-reader-error")
		}
	} else if isDir(c.entry) {
		// a directory holding a file go/parser rejects must make ParseDir return an error
		if parserErr != nil && res.err == nil {
			run.Fail("c15/parse/no-error", prefix+"|syntax", "%s with %s: go/parser reports %v for x.go but ParseDir returned no error\ninput: %q", entryNames[c.entry], c.label, parserErr, clip(data))
			return
		}
	} else if c.entry != eReuse {
		// errors are reported through the error result: go/parser calls these bytes erroneous iff dst does
		if parserErr != nil && res.err == nil {
			run.Fail("c15/parse/no-error", prefix+"|syntax", "%s with %s: go/parser reports %v but the entry point returned no error\ninput: %q", entryNames[c.entry], c.label, parserErr, clip(data))
			return
		}
		if parserErr == nil && res.err != nil && !managed(c.entry) {
			run.Fail("c15/parse/spurious-error", prefix, "%s with %s: go/parser accepts the input but the entry point returned %v", entryNames[c.entry], c.label, res.err)
			return
		}
	}
	if len(data) == 0 && res.err == nil && !isDir(c.entry) {
		run.Fail("c15/parse/no-error", prefix+"|empty", "empty input produced no error")
		return
	}
	if parserErr != nil && len(res.files) > 0 {
		run.Count("partial-tree-with-error")
	}
	if parserErr != nil {
		run.Count("erroneous-inputs")
	}
	if res.err != nil && len(res.files) == 0 {
		run.Count("error-without-tree")
	}

	// ---- printing every tree returned
	for _, f := range res.files {
		if bad := countBad(f); bad > 0 {
			run.Count("trees-with-Bad-nodes")
		}
		printAll(run, f, c, prefix, name, data)
		if run.Failed() {
			return
		}
	}
}

func clip(b []byte) []byte {
	if len(b) > 600 {
		return b[:600]
	}
	return b
}

func countBad(f *dst.File) (n int) {
	core.Catch(func() {
		dst.Inspect(f, func(nd dst.Node) bool {
			switch nd.(type) {
			case *dst.BadDecl, *dst.BadExpr, *dst.BadStmt:
				n++
			}
			return true
		})
	})
	return
}

func parseVia(c evalCfg, src interface{}, data []byte) parseResult {
	fset := newFset(c.preload)
	switch c.entry {
	case ePlainParse:
		f, err := decorator.Parse(src)
		return one(f, err, nil)
	case eParseFile:
		f, err := decorator.ParseFile(fset, "f.go", src, c.mode)
		return one(f, err, fset)
	case eManagedGoast:
		d := decorator.NewDecoratorWithImports(fset, LocalPath, goast.New())
		f, err := d.ParseFile("f.go", src, c.mode)
		return one(f, err, fset)
	case eManagedGuess:
		d := decorator.NewDecoratorWithImports(fset, LocalPath, goast.WithResolver(guess.WithMap(gen.Truth())))
		f, err := d.ParseFile("f.go", src, c.mode)
		return one(f, err, fset)
	case eReuse:
		d := decorator.NewDecorator(fset)
		g, gerr := d.ParseFile("good.go", goodFile, 0)
		if gerr != nil || g == nil {
			panic("harness: the good file does not parse")
		}
		f, err := d.ParseFile("f.go", src, c.mode)
		r := one(f, err, fset)
		r.files = append(r.files, g)
		return r
	case eDecorateFile:
		af, perr := parser.ParseFile(fset, "f.go", src, c.mode|parser.ParseComments)
		if af == nil {
			return parseResult{err: perr, fset: fset}
		}
		f, err := decorator.DecorateFile(fset, af)
		if err == nil {
			err = perr
		}
		return one(f, err, fset)
	case eDecorateNodes:
		af, perr := parser.ParseFile(fset, "f.go", src, c.mode|parser.ParseComments)
		if af == nil {
			return parseResult{err: perr, fset: fset}
		}
		// isolated nodes: no file-level comment / newline discovery, and nothing to print;
		// the obligation is only that none of the calls panics and each returns a node or an error
		for _, d := range af.Decls {
			n, err := decorator.Decorate(fset, d)
			if n == nil && err == nil {
				return parseResult{fset: fset} // reported as neither-tree-nor-error
			}
		}
		f, err := decorator.DecorateFile(fset, af)
		if err == nil {
			err = perr
		}
		return one(f, err, fset)
	case eParseDir, eManagedParseDir:
		dir, err := ioutil.TempDir("", "dstsim-c15-")
		if err != nil {
			panic("harness: " + err.Error())
		}
		defer os.RemoveAll(dir)
		if err := ioutil.WriteFile(filepath.Join(dir, "x.go"), data, 0644); err != nil {
			panic("harness: " + err.Error())
		}
		ioutil.WriteFile(filepath.Join(dir, "good.go"), []byte(goodFile), 0644)
		// a later file of the same package that starts with blank lines (spacing must not leak
		// from the end of one file into the start of the next)
		ioutil.WriteFile(filepath.Join(dir, "z.go"), []byte("\n\n\npackage good\n\n// Z is last.\nvar Z = 1\n"), 0644)
		var pkgs map[string]*dst.Package
		if c.entry == eManagedParseDir {
			pkgs, err = decorator.NewDecoratorWithImports(fset, LocalPath, goast.WithResolver(guess.WithMap(gen.Truth()))).ParseDir(dir, nil, c.mode)
		} else {
			pkgs, err = decorator.ParseDir(fset, dir, nil, c.mode)
		}
		r := parseResult{err: err, fset: fset}
		var names []string
		for n := range pkgs {
			names = append(names, n)
		}
		sort.Strings(names)
		for _, n := range names {
			var fns []string
			for fn := range pkgs[n].Files {
				fns = append(fns, fn)
			}
			sort.Strings(fns)
			for _, fn := range fns {
				r.files = append(r.files, pkgs[n].Files[fn])
			}
		}
		return r
	}
	panic("bad entry")
}

func one(f *dst.File, err error, fset *token.FileSet) parseResult {
	r := parseResult{err: err, fset: fset}
	if f != nil {
		r.files = []*dst.File{f}
	}
	return r
}

// printAll prints one returned tree through every printer; none may panic, each produces output
// or an error, a failing writer's error comes back.
func printAll(run *core.Run, f *dst.File, c evalCfg, prefix, name string, data []byte) {
	writeErr := faults.NewSentinel("writer")
	newW := func() *faults.Writer { return &faults.Writer{FailAt: c.sf.writeAt, Err: writeErr, Short: c.sf.short} }
	check := func(api string, w *faults.Writer, err error, pi *core.PanicInfo) bool {
		if pi != nil {
			run.Fail("c15/print/panic", prefix+"|"+api+"|"+pi.Sig(), "%s panicked printing the tree that %s returned for %s with %s: %s\ninput (%d bytes): %q\n%s", api, entryNames[c.entry], name, c.label, pi.Value, len(data), clip(data), pi.Stack)
			return false
		}
		if w != nil && w.Fired > 0 {
			run.Count("fault-fired/writer-error")
			if err == nil {
				run.Fail("c15/print/writer-error-swallowed", prefix+"|"+api, "%s: the writer failed (%s) but no error was returned", api, c.label)
				return false
			}
			if !errors.Is(err, writeErr) {
				run.Fail("c15/print/writer-error-lost", prefix+"|"+api, "%s: the writer's error is not what came back: %v", api, err)
				return false
			}
			return true
		}
		if err == nil && w != nil && len(w.Buf) == 0 {
			run.Fail("c15/print/no-output-no-error", prefix+"|"+api, "%s returned nil and wrote nothing", api)
			return false
		}
		if err != nil {
			run.Count("print-returned-error")
		} else {
			run.Count("print-ok")
		}
		return true
	}
	if managed(c.entry) {
		w := newW()
		var err error
		pi := core.Catch(func() {
			r := decorator.NewRestorerWithImports(LocalPath, guess.WithMap(gen.Truth()))
			r.Extras = c.extras
			err = r.Fprint(w, f)
		})
		if !check("Restorer(imports).Fprint", w, err, pi) {
			return
		}
		// a second print of the same (now import-updated) tree
		w2 := &faults.Writer{FailAt: -1}
		pi = core.Catch(func() {
			err = decorator.NewRestorerWithImports(LocalPath, guess.WithMap(gen.Truth())).Fprint(w2, f)
		})
		check("Restorer(imports).Fprint#2", w2, err, pi)
		return
	}
	{
		w := newW()
		var err error
		pi := core.Catch(func() { err = decorator.Fprint(w, f) })
		if !check("Fprint", w, err, pi) {
			return
		}
	}
	{
		var af *ast.File
		var fset *token.FileSet
		var err error
		pi := core.Catch(func() { fset, af, err = decorator.RestoreFile(f) })
		if pi != nil {
			check("RestoreFile", nil, nil, pi)
			return
		}
		if err == nil && (af == nil || fset == nil) {
			run.Fail("c15/print/no-output-no-error", prefix+"|RestoreFile", "RestoreFile returned neither a file nor an error")
			return
		}
	}
	{
		// a Restorer whose FileSet the caller supplied and which already holds other files
		w := &faults.Writer{FailAt: -1}
		var err error
		pi := core.Catch(func() {
			r := decorator.NewRestorer()
			r.Fset = newFset(true)
			err = r.Fprint(w, f)
		})
		if !check("Restorer(caller Fset).Fprint", w, err, pi) {
			return
		}
	}
	{
		// one FileRestorer used for a good file first and then for this tree (RestoreFile resets the
		// FileRestorer between files by its own account); with and without Extras
		w := &faults.Writer{FailAt: -1}
		var err error
		pi := core.Catch(func() {
			g, gerr := decorator.Parse(goodFile)
			if gerr != nil {
				panic("harness: the good file does not parse")
			}
			r := decorator.NewRestorer()
			r.Extras = c.extras
			fr := r.FileRestorer()
			if e := fr.Fprint(&faults.Writer{FailAt: -1}, g); e != nil {
				panic("harness: the good file does not print: " + e.Error())
			}
			err = fr.Fprint(w, f)
		})
		if pi != nil && strings.HasPrefix(pi.Value, "harness:") {
			panic(pi.Value)
		}
		saved := prefix
		if c.extras {
			prefix = "extras"
		}
		if !check("reused FileRestorer.Fprint", w, err, pi) {
			return
		}
		prefix = saved
	}
	if c.extras {
		w := &faults.Writer{FailAt: -1}
		var err error
		pi := core.Catch(func() {
			r := decorator.NewRestorer()
			r.Extras = true
			err = r.Fprint(w, f)
		})
		if pi != nil {
			prefix = "extras"
			// Extras needs "carefully managed" objects by its own documentation; a panic here is
			// recorded under its own prefix so it cannot mask the plain path.
			check("Restorer(Extras).Fprint", w, err, pi)
			return
		}
	}
	_ = io.EOF
}
