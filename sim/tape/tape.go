// Package tape is the single source of choice for every simulated run: a run never touches a
// PRNG, it calls Draw, which replays a recorded choice or, when the recording is exhausted,
// draws a fresh one from a PRNG seeded from VERIF_SEED and records it.
package tape

import "fmt"

// Rand is splitmix64; small, seedable, no global state.
type Rand struct{ s uint64 }

func NewRand(seed uint64) *Rand { return &Rand{s: seed} }

func (r *Rand) Uint64() uint64 {
	r.s += 0x9e3779b97f4a7c15
	z := r.s
	z = (z ^ (z >> 30)) * 0xbf58476d1ce4e5b9
	z = (z ^ (z >> 27)) * 0x94d049bb133111eb
	return z ^ (z >> 31)
}

// Mix derives a sub-seed from a seed and a stream index.
func Mix(seed uint64, i uint64) uint64 {
	r := NewRand(seed ^ (i+1)*0xd1342543de82ef95)
	r.Uint64()
	return r.Uint64()
}

type Tape struct {
	Seed   uint64
	Vals   []uint32
	pos    int
	rng    *Rand
	Frozen bool // replay: never extend; exhausted draws return 0
	Over   int  // number of draws made past the end of a frozen tape
}

func New(seed uint64) *Tape { return &Tape{Seed: seed, rng: NewRand(seed)} }

func Replay(seed uint64, vals []uint32) *Tape {
	return &Tape{Seed: seed, Vals: append([]uint32(nil), vals...), Frozen: true}
}

// Draw returns a value in [0,n). n must be >= 1.
func (t *Tape) Draw(n int) int {
	if n <= 0 {
		panic(fmt.Sprintf("tape.Draw(%d)", n))
	}
	if t.pos < len(t.Vals) {
		v := t.Vals[t.pos]
		t.pos++
		if int(v) >= n {
			v = v % uint32(n)
			t.Vals[t.pos-1] = v // normalise so that the stored tape is what was used
		}
		return int(v)
	}
	if t.Frozen {
		t.Over++
		t.Vals = append(t.Vals, 0)
		t.pos++
		return 0
	}
	v := uint32(t.rng.Uint64() % uint64(n))
	t.Vals = append(t.Vals, v)
	t.pos++
	return int(v)
}

// Bool returns true with probability num/den. The value 0 means false, so that a zeroed tape
// (the shrinker's target) selects the plain alternative everywhere.
func (t *Tape) Bool(num, den int) bool { return t.Draw(den) >= den-num }

// Range returns a value in [lo,hi].
func (t *Tape) Range(lo, hi int) int { return lo + t.Draw(hi-lo+1) }

func (t *Tape) Pos() int { return t.pos }

// Used returns the prefix of the tape actually consumed.
func (t *Tape) Used() []uint32 { return append([]uint32(nil), t.Vals[:t.pos]...) }
