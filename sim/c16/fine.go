//go:build linux && yieldinst

package c16

import (
	"fmt"
	"runtime"

	"github.com/dave/dst/verifyield"

	"verifsim/sched"
)

// The race binary is built against a copy of /repo into which cmd/yieldinst inserted decision
// points at every function entry (see that command). These hooks connect them to the scheduler.
// probeYield is written only while no engine goroutine runs (see SetProbeYield).
var probeYield bool

// SetProbeYield switches the decision points to plain runtime.Gosched calls for the in-call race
// probe. Call it before the goroutine that calls into dst is started.
func SetProbeYield(on bool) { probeYield = on }

func init() {
	fineAvailable = true
	verifyield.Hook = func(site int32) {
		if probeYield {
			// in-call race probe (other engines in this binary): let goroutines that dst may have
			// started run side by side instead of one after the other. The race detector recycles
			// the context of a goroutine that has ended, and a goroutine that inherits it is ordered
			// after everything its predecessor did, so two goroutines of dst's that never overlap in
			// time would not be reported against each other. No shared state is touched here: that
			// would order them as well.
			if site%4 == 0 {
				runtime.Gosched()
			}
			return
		}
		s := theSched
		if s == nil || !s.Active() || !fineMode {
			return
		}
		me := s.Turn()
		if me < 0 || me >= len(curWorkers) {
			return
		}
		before := s.SwitchCount()
		// dst starts no goroutines of its own. Should a change make it start some, they run this
		// hook too and cannot be told from the turn holder cheaply; when the run is aborted they
		// must not take the process down with an Aborted panic nobody recovers: they just end.
		defer func() {
			if v := recover(); v != nil {
				if _, ok := v.(sched.Aborted); ok && !isWorkerGoroutine() {
					runtime.Goexit()
				}
				panic(v)
			}
		}()
		step := s.Yield(me)
		if s.SwitchCount() != before {
			name := "?"
			if int(site) < len(verifyield.Sites) {
				name = verifyield.Sites[site]
			}
			w := curWorkers[me]
			w.trace = append(w.trace, fmt.Sprintf("%06d w%d fn:%s", step, me, name))
		}
	}
	verifyield.Enter = func() {
		if s := theSched; s != nil && s.Active() {
			s.Enter()
		}
	}
	verifyield.Leave = func() {
		if s := theSched; s != nil && s.Active() {
			s.Leave()
		}
	}
}
