//go:build linux && verif

// Package c16 decides C16: goroutines that decorate and restore different files at the same time,
// each with its own decorator and restorer, optionally sharing one syntax-based identifier
// resolver and read-only package-name resolvers, do so without data races, each result equals
// that of the same call made alone, and repeating a call on equal inputs gives equal trees and
// identical bytes regardless of scheduling or map iteration order.
//
// Two run modes, chosen by the tape:
//
//	scheduled  2-6 real caller goroutines run real dst code, serialised by package sched (one
//	           runs at a time, who runs next is a tape decision at every resolver call and
//	           operation boundary) in a way the race detector cannot see, so that the detector
//	           judges dst's own synchronisation (O1); every result is compared with an isolated
//	           sequential reference (O2), no worker may panic (O4) or hang (O5).
//	repeat     one goroutine repeats decorate / restore / ParseDir R times on equal inputs chosen
//	           to stress map-derived choices and compares dumps and bytes (O3).
package c16

import (
	"bytes"
	"errors"
	"fmt"
	"go/ast"
	"go/format"
	"go/parser"
	"go/token"
	"io/ioutil"
	"os"
	"path/filepath"
	"runtime"
	"sort"
	"strings"

	"github.com/dave/dst"
	"github.com/dave/dst/decorator"
	"github.com/dave/dst/decorator/resolver"
	"github.com/dave/dst/decorator/resolver/goast"
	"github.com/dave/dst/decorator/resolver/guess"
	"golang.org/x/tools/go/packages"

	"verifsim/core"
	"verifsim/corpus"
	"verifsim/dump"
	"verifsim/edits"
	"verifsim/faults"
	"verifsim/gen"
	"verifsim/raceorc"
	"verifsim/sched"
)

const LocalPath = "sim.local/pkg"

// betweenFile is restored between a RestoreFile and the printing of its result (reuse mode).
const betweenFile = "// Package between has comments of its own.\npackage between\n\nimport \"fmt\"\n\n// B prints.\nfunc B() {\n\t// inside\n\tfmt.Println(\"b\") // trailing\n}\n\n// end\n"

// shared identifier resolver kinds
const (
	identGoastNew        = iota // goast.New(): name resolver defaulted lazily on first use
	identGoastGuess             // goast.WithResolver(guess.New())
	identGoastMap               // goast.WithResolver(guess.WithMap(truth))
	identGoastSimple            // goast.WithResolver(simple.New(truth))
	identGoastGobuild           // goast.WithResolver(gobuild over the stub finder)
	identGoastGopackages        // goast.WithResolver(gopackages.WithHints(truth)): every lookup is answered from the hints
	numIdentKinds
)

var identKindNames = [...]string{"goast.New()", "goast.WithResolver(guess.New())", "goast.WithResolver(guess.WithMap)", "goast.WithResolver(simple.New)", "goast.WithResolver(gobuild/stub)", "goast.WithResolver(gopackages.WithHints)"}

// ownGuessResolver is what a caller does who wants guessed names plus a few of its own: it takes a
// fresh guess.New() and fills in entries (the type is documented as a plain map). Worker i names the
// same paths differently from every other worker.
func ownGuessResolver(i int) resolver.RestorerResolver {
	own := guess.New()
	own["github.com/foo/bar-go"] = fmt.Sprintf("bar%d", i)
	own["gopkg.in/yaml.v2"] = fmt.Sprintf("yaml%d", i)
	own["f.dev/v2"] = "f"
	return own
}

// truthWithout is the accurate name map minus the paths that are to fail: for the resolvers that can
// fail by themselves (simple, gobuild over the stub finder) the failure then happens INSIDE dst's
// resolver, not in a wrapper around it.
func truthWithout(failPaths map[string]bool) map[string]string {
	m := gen.Truth()
	for p := range failPaths {
		delete(m, p)
	}
	return m
}

func newNameResolver(kind int, failPaths map[string]bool) resolver.RestorerResolver {
	return faults.NameResolver(kind, truthWithout(failPaths))
}

func newIdentResolver(kind int, failPaths map[string]bool, panicPaths ...map[string]bool) resolver.DecoratorResolver {
	if len(panicPaths) > 0 && len(panicPaths[0]) > 0 {
		// a name resolver that crashes for one path (a defect in the caller's own code): the
		// goroutine that asks for it dies; nobody else may be affected
		var inner resolver.RestorerResolver = guess.New()
		switch kind {
		case identGoastMap:
			inner = faults.NameResolver(faults.KindGuessMap, gen.Truth())
		case identGoastSimple:
			inner = faults.NameResolver(faults.KindSimple, gen.Truth())
		case identGoastGobuild:
			inner = faults.NameResolver(faults.KindGobuild, gen.Truth())
		}
		return goast.WithResolver(&pathFault{inner: inner, panics: panicPaths[0]})
	}
	wrap := func(r resolver.RestorerResolver) resolver.RestorerResolver {
		if len(failPaths) == 0 {
			return r
		}
		// a permanent, path-keyed fault inside the shared name resolver; this wrapper holds no
		// mutable state after construction besides counters only the lock holder touches
		return &pathFault{inner: r, paths: failPaths}
	}
	switch kind {
	case identGoastNew:
		return goast.New()
	case identGoastGuess:
		return goast.WithResolver(wrap(guess.New()))
	case identGoastMap:
		return goast.WithResolver(wrap(faults.NameResolver(faults.KindGuessMap, gen.Truth())))
	case identGoastGopackages:
		return goast.WithResolver(faults.NameResolver(faults.KindGopackagesHints, gen.Truth()))
	case identGoastSimple:
		return goast.WithResolver(faults.NameResolver(faults.KindSimple, truthWithout(failPaths)))
	default:
		return goast.WithResolver(faults.NameResolver(faults.KindGobuild, truthWithout(failPaths)))
	}
}

var errShared = faults.NewSentinel("shared-name-resolver")

// pathFault is a stateless (read-only) failing name resolver.
type pathFault struct {
	inner  resolver.RestorerResolver
	paths  map[string]bool
	panics map[string]bool
}

// injectedPanic is what a deliberately crashing resolver panics with.
type injectedPanic struct{ path string }

func (p *pathFault) ResolvePackage(path string) (string, error) {
	if p.panics[path] {
		panic(injectedPanic{path})
	}
	if p.paths[path] {
		return "", errShared
	}
	return p.inner.ResolvePackage(path)
}

const (
	pipePlain = iota
	pipeManagedDecorate
	pipeManagedParse
	pipeFragment    // DecorateNode of one isolated declaration through the shared identifier resolver (no *ast.File reaches the resolver)
	pipeParseShared // plain ParseFile + Fprint of a possibly corrupted source into the FileSet all workers share
	pipeSave        // a decorator.Package whose FileSet is shared with the other workers' packages (as the packages of one decorator.Load share theirs), saved to a private disk
	numPipeKinds
)

type pipeSpec struct {
	kind    int
	src     string
	script  []edits.Edit
	alias   map[string]string
	reps    int
	extras  bool
	split   bool // plain: RestoreFile, a decision point, then format.Node (instead of one Fprint)
	sameAst bool // managed: every repetition decorates the SAME *ast.File with a fresh Decorator
	big     string
	reuseFR bool // managed: the worker restores all its files through ONE FileRestorer (alone: a fresh one per file)
	reuseR  bool // managed: the worker restores all its files through ONE Restorer, asking it for a new FileRestorer (with this file's aliases) per file
}

// frState is a worker's reused FileRestorer (concurrent phase only; the reference uses fresh ones).
type frState struct {
	fr *decorator.FileRestorer
	r  *decorator.Restorer
	pw *faults.Pkg
}

// bigSources are the long (>= 600 lines) corpus files that parse cleanly: line tables, fragment
// lists and maps grow past the sizes small generated files ever reach.
var bigSources []corpus.File

func init() {
	for _, f := range corpus.Files() {
		if strings.Count(f.Src, "\n") < 600 {
			continue
		}
		if _, err := parser.ParseFile(token.NewFileSet(), "", f.Src, parser.ParseComments); err == nil {
			bigSources = append(bigSources, f)
		}
	}
}

type workload struct {
	workers       [][]pipeSpec
	identKind     int
	nameKind      int
	ownGuess      bool            // every worker restores through a guess.New() resolver of its own that it fills itself
	panicPaths    map[string]bool // paths for which the shared identifier resolver's name resolver panics
	failPaths     map[string]bool // paths the shared identifier resolver's name resolver cannot name
	nameFailPaths map[string]bool // paths the shared restore-side name resolver cannot name
}

// opResult is what one operation returned, in comparable form.
type opResult struct {
	Pipe int
	Rep  int
	Op   string
	Out  string // bytes printed or tree dump
	Err  string
	Pkgs string // sorted set of paths the restorer asked for
}

type env struct {
	ident resolver.DecoratorResolver // shared (or private in the reference)
	name  resolver.RestorerResolver
	fset  *token.FileSet // the FileSet "loaded" packages share (private in the reference)
}

func errClass(err error) string {
	if err == nil {
		return ""
	}
	if faults.IsInjected(err) {
		return "injected"
	}
	// Which of several unresolvable packages is named first depends on Go's map iteration order
	// inside updateImports; C16 speaks of trees and bytes, so such errors are compared by class.
	if errors.Is(err, resolver.ErrPackageNotFound) || errors.Is(err, faults.ErrStubNotFound) {
		return "package-not-found"
	}
	return err.Error()
}

// execPipe runs one pipeline (all its repetitions) and stamps the results with pipe and
// repetition numbers. y is the decision-point callback (nil in the sequential reference).
func execPipe(pidx int, p pipeSpec, e env, y func(string), res *[]opResult, reuse ...*frState) {
	var fs *frState
	if len(reuse) > 0 && (p.reuseFR || p.reuseR) {
		fs = reuse[0]
	}
	var shared *parsed
	if p.sameAst && p.kind == pipeManagedDecorate {
		fset := token.NewFileSet()
		af, err := parser.ParseFile(fset, "w.go", p.src, parser.ParseComments)
		if err != nil {
			panic("harness: source does not parse: " + err.Error())
		}
		shared = &parsed{fset, af}
	}
	for rep := 0; rep < p.reps; rep++ {
		from := len(*res)
		execOnce(p, e, y, res, shared, fs)
		for i := from; i < len(*res); i++ {
			(*res)[i].Pipe, (*res)[i].Rep = pidx, rep
		}
	}
}

type parsed struct {
	fset *token.FileSet
	af   *ast.File
}

func execOnce(p pipeSpec, e env, y func(string), out *[]opResult, shared *parsed, fs *frState) {
	yield := func(site string) {
		if y != nil {
			y(site)
		}
	}
	if p.kind == pipePlain {
		yield("op:parse")
		f, err := decorator.Parse(p.src)
		if err != nil {
			*out = append(*out, opResult{Op: "parse", Err: errClass(err)})
			return
		}
		if p.big != "" {
			*out = append(*out, opResult{Op: "parse"}) // long files are compared by their printed bytes only
		} else {
			*out = append(*out, opResult{Op: "parse", Out: dump.String(f, dump.Options{})})
		}
		yield("op:print")
		var buf bytes.Buffer
		if p.split {
			// the two halves of Fprint as a caller may run them: restore now, print later
			fset, af, rerr := decorator.RestoreFile(f)
			if rerr != nil {
				*out = append(*out, opResult{Op: "print", Err: errClass(rerr)})
				return
			}
			yield("op:print-restored")
			err = format.Node(&buf, fset, af)
		} else {
			err = decorator.Fprint(&buf, f)
		}
		*out = append(*out, opResult{Op: "print", Out: buf.String(), Err: errClass(err)})
		return
	}
	if p.kind == pipeFragment {
		yield("op:fragment")
		fset := token.NewFileSet()
		af, err := parser.ParseFile(fset, "w.go", p.src, parser.ParseComments)
		if err != nil {
			panic("harness: generated source does not parse: " + err.Error())
		}
		var target ast.Node
		for _, d := range af.Decls {
			if gd, ok := d.(*ast.GenDecl); ok && gd.Tok == token.IMPORT {
				continue
			}
			target = d
		}
		if target == nil {
			*out = append(*out, opResult{Op: "fragment", Err: "no declaration"})
			return
		}
		n, err := decorator.NewDecoratorWithImports(fset, LocalPath, &faults.Ident{Inner: e.ident, Yield: y}).DecorateNode(target)
		r := opResult{Op: "fragment", Err: errClass(err)}
		if n != nil {
			r.Out = dump.String(n, dump.Options{})
		}
		*out = append(*out, r)
		return
	}
	if p.kind == pipeParseShared {
		yield("op:parse-shared")
		fset := e.fset
		if fset == nil {
			fset = token.NewFileSet()
		}
		name := "/sim/w/" + dump.HashString(p.src) + ".go"
		d := decorator.NewDecorator(fset)
		f, err := d.ParseFile(name, p.src, 0)
		r := opResult{Op: "parse-shared", Err: errClass(err)}
		if f != nil {
			r.Out = "recorded file name: " + d.Filenames[f] + "\n" + dump.String(f, dump.Options{})
		}
		*out = append(*out, r)
		if f == nil {
			return
		}
		yield("op:print")
		var buf bytes.Buffer
		err = decorator.Fprint(&buf, f)
		*out = append(*out, opResult{Op: "print", Out: buf.String(), Err: errClass(err)})
		return
	}
	if p.kind == pipeSave {
		yield("op:load")
		fset := e.fset
		if fset == nil {
			fset = token.NewFileSet()
		}
		dec := decorator.NewDecoratorWithImports(fset, LocalPath, &faults.Ident{Inner: e.ident, Yield: y})
		f, err := dec.ParseFile("/sim/w/"+dump.HashString(p.src)+".go", p.src, 0)
		if err != nil {
			*out = append(*out, opResult{Op: "load", Err: errClass(err)})
			return
		}
		edits.Apply(f, p.script)
		pkg := &decorator.Package{Package: &packages.Package{PkgPath: LocalPath, Fset: fset}, Dir: "/sim/w", Decorator: dec, Syntax: []*dst.File{f}}
		yield("op:save")
		disk := faults.NewDisk()
		err = pkg.VerifSave(&faults.Pkg{Inner: e.name, Yield: y}, disk.WriteFile)
		var written strings.Builder
		for _, rec := range disk.Journal {
			written.WriteString(filepath.Base(rec.Path) + "\n" + string(rec.Data))
		}
		*out = append(*out, opResult{Op: "save", Out: written.String(), Err: errClass(err)})
		return
	}
	yield("op:decorate")
	fset := token.NewFileSet()
	iw := &faults.Ident{Inner: e.ident, Yield: y}
	dec := decorator.NewDecoratorWithImports(fset, LocalPath, iw)
	var f *dst.File
	var err error
	if p.kind == pipeManagedDecorate && shared != nil {
		dec = decorator.NewDecoratorWithImports(shared.fset, LocalPath, iw)
		f, err = dec.DecorateFile(shared.af)
	} else if p.kind == pipeManagedDecorate {
		var af *ast.File
		af, err = parser.ParseFile(fset, "w.go", p.src, parser.ParseComments)
		if err != nil {
			panic("harness: generated source does not parse: " + err.Error())
		}
		f, err = dec.DecorateFile(af)
	} else {
		f, err = dec.ParseFile("w.go", p.src, 0)
	}
	if err != nil {
		*out = append(*out, opResult{Op: "decorate", Err: errClass(err)})
		return
	}
	*out = append(*out, opResult{Op: "decorate", Out: dump.String(f, dump.Options{})})
	edits.Apply(f, p.script)
	yield("op:restore")
	var pw *faults.Pkg
	var fr *decorator.FileRestorer
	if fs != nil && p.reuseR {
		// the worker's own Restorer, reused the way Package.save reuses one: a NEW FileRestorer per
		// file, which starts without any alias of the files before it
		if fs.r == nil {
			fs.pw = &faults.Pkg{Inner: e.name, Yield: y}
			fs.r = decorator.NewRestorerWithImports(LocalPath, fs.pw)
		}
		pw = fs.pw
		pw.Seen = nil
		fs.r.Extras = p.extras
		fr = fs.r.FileRestorer()
		for k, v := range p.alias {
			fr.Alias[k] = v
		}
	} else if fs != nil && fs.fr != nil {
		// the worker's own FileRestorer, reused: RestoreFile resets it but leaves Name and Alias alone
		fr, pw = fs.fr, fs.pw
		pw.Seen = nil
	} else {
		pw = &faults.Pkg{Inner: e.name, Yield: y}
		r := decorator.NewRestorerWithImports(LocalPath, pw)
		r.Extras = p.extras
		fr = r.FileRestorer()
		for k, v := range p.alias {
			fr.Alias[k] = v
		}
		if fs != nil {
			fs.fr, fs.pw = fr, pw
		}
	}
	var buf bytes.Buffer
	if p.reuseFR && p.split {
		// RestoreFile now, print later: "alone" the file is printed straight away; the worker
		// that reuses its FileRestorer restores another (small) file in between, which must not
		// disturb the *ast.File it already handed out
		var af *ast.File
		af, err = fr.RestoreFile(f)
		paths := strings.Join(pw.SeenPaths(), ",")
		if err == nil && fs != nil {
			yield("op:restore-between")
			// (decorated with a resolver of its own: the shared one may be set up to fail or crash)
			if g, gerr := decorator.NewDecoratorWithImports(token.NewFileSet(), LocalPath, goast.WithResolver(guess.New())).Parse(betweenFile); gerr == nil {
				fr.RestoreFile(g)
			}
		}
		if err == nil {
			yield("op:print-restored")
			err = format.Node(&buf, fr.Fset, af)
		}
		*out = append(*out, opResult{Op: "restore", Out: buf.String(), Err: errClass(err), Pkgs: paths})
	} else {
		err = fr.Fprint(&buf, f)
		*out = append(*out, opResult{Op: "restore", Out: buf.String(), Err: errClass(err), Pkgs: strings.Join(pw.SeenPaths(), ",")})
	}
	if err != nil {
		return
	}
	yield("op:redecorate")
	fset2 := token.NewFileSet()
	dec2 := decorator.NewDecoratorWithImports(fset2, LocalPath, &faults.Ident{Inner: e.ident, Yield: y})
	f2, err := dec2.ParseFile("w2.go", buf.Bytes(), 0)
	if err != nil {
		*out = append(*out, opResult{Op: "redecorate", Err: errClass(err)})
		return
	}
	*out = append(*out, opResult{Op: "redecorate", Out: dump.String(f2, dump.Options{})})
}

func drawPipe(run *core.Run, conflicts bool, noBroken ...bool) pipeSpec {
	t := run.T
	p := pipeSpec{kind: t.Draw(numPipeKinds), reps: 1 + t.Draw(2), extras: t.Bool(1, 8)}
	sp := gen.Source(t, gen.Options{MaxImports: 5, MaxDecls: 3, AllowCgo: true, AllowDot: t.Bool(1, 16), Conflicts: conflicts})
	p.src = sp.Src
	p.split = t.Bool(1, 3)
	p.sameAst = t.Bool(1, 3)
	if len(bigSources) > 0 && t.Bool(1, 14) {
		b := bigSources[t.Draw(len(bigSources))]
		p.src, p.big, p.reps, p.kind = b.Src, b.Name, 1, pipePlain
	}
	if p.kind == pipeParseShared && t.Bool(2, 3) && len(noBroken) == 0 {
		// a stored source hit by a storage fault; one time in three its package clause is destroyed
		cur := []byte(p.src)
		if t.Bool(1, 3) {
			if i := strings.Index(p.src, "package "); i >= 0 {
				cur = []byte(p.src[:i] + []string{"packag ", "", "package 1", "pakage "}[t.Draw(4)] + p.src[i+8:])
			}
		} else {
			cur, _ = faults.Corrupt(t, cur, t.Draw(faults.NumStorageFaults))
		}
		p.src = string(cur)
	}
	if p.kind != pipePlain && p.kind != pipeParseShared && p.kind != pipeFragment && p.big == "" {
		p.script = edits.Script(t, 3, conflicts, !noExotic)
		if t.Bool(1, 3) {
			p.alias = map[string]string{}
			n := 1 + t.Draw(3)
			for i := 0; i < n; i++ {
				pk := gen.Pool[t.Draw(gen.NumPlain)]
				p.alias[pk.Path] = []string{"", "ali", "x", "_", "q1", "util"}[t.Draw(6)]
			}
		}
	}
	return p
}

var theSched *sched.Sched

// noExotic is set while a run's workload is drawn if no edit may use a path the name tables lack.
var noExotic bool

// Init maps the scheduler region, arms the race oracle and checks it with a canary.
func Init() error {
	if err := raceorc.Init(); err != nil {
		return err
	}
	s, err := sched.New()
	if err != nil {
		return err
	}
	theSched = s
	return canary()
}

// canary: two goroutines, serialised exactly like the workers, write one variable without any
// synchronisation of their own. If the detector does not report that, it is blind to what the
// scheduler serialises and the check must not pass.
func canary() error {
	before := raceorc.Errors()
	var shared int
	s := theSched
	s.Reset(sched.Config{Workers: 2, Policy: sched.PolicyRoundRobin, Param: 1})
	done := make([]chan struct{}, 2)
	for i := 0; i < 2; i++ {
		i := i
		done[i] = make(chan struct{})
		go func() {
			defer close(done[i])
			s.Wait(i)
			shared++
			s.Yield(i)
			shared++
			s.Finish(i)
		}()
	}
	s.Go(0)
	s.AwaitAll()
	<-done[0]
	<-done[1]
	_ = shared
	txt := raceorc.Drain()
	if raceorc.Errors() == before {
		return fmt.Errorf("race oracle blind: the canary race was not reported (stderr: %q)", txt)
	}
	return nil
}

// Run executes one C16 run.
func Run(run *core.Run) {
	if theSched == nil {
		panic("c16: Init not called")
	}
	if run.T.Bool(1, 4) {
		runRepeat(run)
		return
	}
	runScheduled(run)
}

// wstate is one worker goroutine's private state; the main goroutine reads it only after joining
// the worker through its done channel.
type wstate struct {
	res   []opResult
	trace []string
	pi    *core.PanicInfo
	done  chan struct{}
}

// goid parses the current goroutine's id from its stack header (slow: used once per worker and on
// the abort path only).
func goid() string {
	buf := make([]byte, 64)
	buf = buf[:runtime.Stack(buf, false)]
	f := strings.Fields(string(buf))
	if len(f) >= 2 {
		return f[1]
	}
	return ""
}

var workerGoids = map[string]bool{} // written by the engine goroutine before Go(), read on abort

func isWorkerGoroutine() bool { return workerGoids[goid()] }

var (
	fineAvailable bool      // the binary was built against the yield-instrumented copy of /repo
	fineMode      bool      // this run uses function-entry decision points
	curWorkers    []*wstate // set before the workers start; each worker touches only its own entry
)

type concResult struct {
	ws       []*wstate
	trace    []string
	aborted  bool
	doneMask uint32
}

// concurrentPhase runs the workers of w under the scheduler with fresh shared resolver instances.
func concurrentPhase(run *core.Run, w *workload, cfg sched.Config, fine bool, opOnly ...bool) concResult {
	boundaryOnly := len(opOnly) > 0 && opOnly[0]
	nworkers := len(w.workers)
	shared := env{ident: newIdentResolver(w.identKind, w.failPaths, w.panicPaths), name: newNameResolver(w.nameKind, w.nameFailPaths), fset: token.NewFileSet()}
	s := theSched
	s.Reset(cfg)
	ws := make([]*wstate, nworkers)
	for i := range ws {
		ws[i] = &wstate{done: make(chan struct{})}
	}
	curWorkers = ws
	fineMode = fine
	workerGoids = map[string]bool{}
	idCh := make(chan string, nworkers)
	for i := range ws {
		i := i
		st := ws[i]
		ps := w.workers[i]
		go func() {
			defer close(st.done)
			idCh <- goid()
			aborted := false
			st.pi = core.Catch(func() {
				defer func() {
					if v := recover(); v != nil {
						if _, ok := v.(sched.Aborted); ok {
							aborted = true
							return
						}
						panic(v)
					}
				}()
				s.Wait(i)
				y := func(site string) {
					if boundaryOnly && !strings.HasPrefix(site, "op:") {
						return
					}
					step := s.Yield(i)
					if site == "pkg" {
						// the restorer asks for package names while ranging over a map: how many
						// calls precede a failing one is map order, so these are not logged
						return
					}
					st.trace = append(st.trace, fmt.Sprintf("%06d w%d %s", step, i, site))
				}
				fs := &frState{}
				e := shared
				if w.ownGuess {
					e.name = ownGuessResolver(i) // built by the worker itself, inside the schedule
				}
				for j, p := range ps {
					execPipe(j, p, e, y, &st.res, fs)
				}
			})
			if !aborted {
				s.Finish(i)
			}
		}()
	}
	for range ws {
		workerGoids[<-idCh] = true
	}
	s.Go(cfg.First)
	doneMask, aborted := s.AwaitAll()
	s.Deactivate()
	var trace []string
	for i, st := range ws {
		if doneMask&(1<<uint(i)) != 0 {
			<-st.done // real happens-before edge: only now may the main goroutine read st
			trace = append(trace, st.trace...)
		}
	}
	sort.Strings(trace)
	return concResult{ws: ws, trace: trace, aborted: aborted, doneMask: doneMask}
}

func runScheduled(run *core.Run) {
	t := run.T
	w := &workload{}
	nworkers := 2 + t.Draw(5)
	conflicts := t.Bool(1, 2)
	w.identKind = t.Draw(numIdentKinds)
	w.nameKind = []int{faults.KindGuessMap, faults.KindSimple, faults.KindHints, faults.KindGuess, faults.KindGobuild, faults.KindGopackagesHints}[t.Draw(6)]
	// a hints-only gopackages resolver is read-only only while every lookup hits the hints (a miss
	// would run `go list`): no unknown paths and no failing paths in such runs
	hintsOnly := w.identKind == identGoastGopackages || w.nameKind == faults.KindGopackagesHints
	noExotic = hintsOnly
	if w.identKind != identGoastNew && !hintsOnly && t.Bool(1, 10) {
		w.panicPaths = map[string]bool{gen.Pool[t.Draw(gen.NumPlain)].Path: true}
	} else if w.identKind != identGoastNew && !hintsOnly && t.Bool(1, 6) {
		w.failPaths = map[string]bool{gen.Pool[t.Draw(len(gen.Pool))].Path: true}
	}
	if (w.nameKind == faults.KindSimple || w.nameKind == faults.KindGobuild) && !hintsOnly && t.Bool(1, 5) {
		// a package the shared restore-side resolver cannot name: whoever asks first gets the error,
		// and so must everybody who asks later
		w.nameFailPaths = map[string]bool{gen.Pool[t.Draw(len(gen.Pool))].Path: true}
	}
	w.ownGuess = !hintsOnly && t.Bool(1, 6)
	sameSrc := t.Bool(1, 4) // equal inputs across workers
	var first pipeSpec
	for i := 0; i < nworkers; i++ {
		np := 1 + t.Draw(3)
		var ps []pipeSpec
		for j := 0; j < np; j++ {
			p := drawPipe(run, conflicts)
			if sameSrc && (i > 0 || j > 0) {
				p.src, p.kind = first.src, first.kind
				if p.kind == pipePlain {
					p.script, p.alias = nil, nil
				}
			} else if i == 0 && j == 0 {
				first = p
			}
			ps = append(ps, p)
		}
		if t.Bool(1, 3) {
			// this worker restores all its files through one FileRestorer with one Alias map
			var alias map[string]string
			var extras, have bool
			for j := range ps {
				if ps[j].kind == pipePlain || ps[j].kind == pipeSave || ps[j].kind == pipeParseShared || ps[j].kind == pipeFragment {
					continue
				}
				if !have {
					alias, extras, have = ps[j].alias, ps[j].extras, true
				}
				ps[j].alias, ps[j].extras, ps[j].reuseFR = alias, extras, true
			}
		} else if t.Bool(1, 3) {
			// this worker restores all its files through one Restorer, a new FileRestorer (with
			// that file's own aliases) for each
			for j := range ps {
				if ps[j].kind == pipePlain || ps[j].kind == pipeSave || ps[j].kind == pipeParseShared || ps[j].kind == pipeFragment {
					continue
				}
				ps[j].reuseR = true
			}
		}
		w.workers = append(w.workers, ps)
	}
	run.Describe("scheduled: %d workers, shared ident resolver %s, shared name resolver %s, failing paths %v / %v, panicking paths %v, own guess resolvers=%v, equal sources=%v", nworkers, identKindNames[w.identKind], faults.KindName(w.nameKind), keys(w.failPaths), keys(w.nameFailPaths), keys(w.panicPaths), w.ownGuess, sameSrc)
	for i, ps := range w.workers {
		for j, p := range ps {
			run.Describe("worker %d pipe %d kind=%d reps=%d extras=%v split=%v sameAst=%v reuseFR=%v reuseR=%v big=%q edits=%v alias=%v src=%d bytes hash %s", i, j, p.kind, p.reps, p.extras, p.split, p.sameAst, p.reuseFR, p.reuseR, p.big, p.script, p.alias, len(p.src), dump.HashString(p.src))
		}
	}

	// estimated number of decision points (the exact number is only known once the pipelines ran)
	total := 0
	for _, ps := range w.workers {
		for _, p := range ps {
			total += p.reps * (2*strings.Count(p.src, ".") + 6)
		}
	}

	// ---- schedule, from the tape
	fine := t.Bool(1, 2) && fineAvailable // decision points at every function entry (instrumented build)
	cfg := sched.Config{Workers: nworkers, Policy: t.Draw(sched.NumPolicies), First: t.Draw(nworkers)}
	if fine {
		// roughly 40 instrumented function entries per source byte through decorate+restore
		total *= 300
	}
	switch cfg.Policy {
	case sched.PolicyChangePoints:
		ncp := t.Draw(9)
		if t.Bool(1, 4) {
			ncp = 8 + t.Draw(56)
		}
		for i := 0; i < ncp; i++ {
			cfg.ChangePoints = append(cfg.ChangePoints, [2]uint32{uint32(1 + t.Draw(total)), uint32(t.Draw(nworkers))})
		}
		sort.Slice(cfg.ChangePoints, func(i, j int) bool { return cfg.ChangePoints[i][0] < cfg.ChangePoints[j][0] })
	case sched.PolicyRoundRobin:
		if fine {
			cfg.Param = []int{1, 7, 50, 333, 2000, 11}[t.Draw(6)]
		} else {
			cfg.Param = []int{1, 1, 2, 3, 5, 17}[t.Draw(6)]
		}
	case sched.PolicySticky:
		if fine {
			cfg.Param = []int{1, 5, 50, 300}[t.Draw(4)]
		} else {
			cfg.Param = []int{20, 100, 500, 900}[t.Draw(4)]
		}
		cfg.Seed = uint64(t.Draw(1<<30))<<1 | 1
	}
	if fine {
		// A context switch costs some 20 microseconds (the parked workers spin): bound the expected
		// number of switches of one run to about a million, whatever the sources' size. (The
		// estimate is low by a factor of up to six for long sources; a 16 KB source in all of 13
		// pipelines, switched at every statement, once took four minutes alone and ran into the
		// watchdog on a loaded machine.)
		est := total * 6
		switch cfg.Policy {
		case sched.PolicyRoundRobin:
			if min := est/1000000 + 1; cfg.Param < min {
				cfg.Param = min
			}
		case sched.PolicySticky:
			if max := 1000000 * 1000 / (est + 1); cfg.Param > max {
				cfg.Param = max
				if cfg.Param < 1 {
					cfg.Param = 1
				}
			}
		}
	}
	run.Describe("schedule: granularity=%s policy=%s param=%d first=%d change-points=%v (estimated decision points: %d)", map[bool]string{true: "statement", false: "resolver-call"}[fine], sched.PolicyNames[cfg.Policy], cfg.Param, cfg.First, cfg.ChangePoints, total)

	// ---- the concurrent run: shared instances, real goroutines, invisible serialisation
	racesBefore := raceorc.Errors()
	raceorc.Drain()
	cr := concurrentPhase(run, w, cfg, fine)
	if cr.aborted && fine {
		// The turn holder blocked for real. With function-entry decision points that can be the
		// simulator's own doing (a goroutine parked inside a synchronisation this build does not
		// know how to bracket), so it proves nothing about dst: the workload is run again with
		// decision points at resolver calls only, where a parked goroutine never holds a dst lock.
		run.Count("fine-run-abandoned(turn-holder-blocked)")
		fine = false
		racesBefore = raceorc.Errors()
		raceorc.Drain()
		cr = concurrentPhase(run, w, cfg, false)
	}
	if cr.aborted {
		// Still blocked with decision points at resolver calls. A library may legitimately hold a
		// lock of its own while it calls the caller's resolver; a worker parked inside that call
		// then blocks the others by the simulator's doing. At operation boundaries no dst code is
		// on any parked worker's stack, so a hang that persists there is dst's own (a lock it
		// leaked): only that is reported.
		run.Count("coarse-run-abandoned(turn-holder-blocked)")
		racesBefore = raceorc.Errors()
		raceorc.Drain()
		cr = concurrentPhase(run, w, cfg, false, true)
	}
	ws, trace, aborted, doneMask := cr.ws, cr.trace, cr.aborted, cr.doneMask
	s := theSched
	for _, l := range trace {
		run.Event("%s", l)
	}
	run.Add("decision-points", int64(s.Steps()))
	run.Add("context-switches", int64(s.Switches()))
	run.Count("scheduled-runs")
	if fine {
		run.Count("granularity/statement")
	} else {
		run.Count("granularity/resolver-call")
	}
	run.Count("policy/" + sched.PolicyNames[cfg.Policy])
	run.Count("shared/" + identKindNames[w.identKind])
	if w.failPaths != nil {
		run.Count("fault-fired/shared-name-resolver-path-fault-armed")
	}
	// distinct interleavings: hash of the (worker, site) sequence at context switches
	{
		var sb strings.Builder
		prev := ""
		for _, l := range trace {
			f := strings.Fields(l)
			if f[1] != prev {
				sb.WriteString(f[1] + ":" + f[2] + ";")
				prev = f[1]
			}
		}
		run.Case("sched:" + dump.HashString(sb.String()+fmt.Sprint(w.identKind, nworkers)))
	}

	// ---- O5 progress
	if aborted {
		run.Fail("c16/hang", "", "no progress: worker %d holds the turn at decision point %d and made no step during %d spin iterations of the parked workers (a lock leaked by dst?). finished workers mask=%b", s.Turn(), s.Steps(), s.Blocked(), doneMask)
		return
	}
	// ---- O1 data-race freedom
	if n := raceorc.Errors() - racesBefore; n > 0 {
		reps := raceorc.Parse(raceorc.Drain())
		if len(reps) == 0 {
			run.Fail("c16/race", "unparsed", "the race detector reported %d race(s) but the report text could not be parsed", n)
			return
		}
		var r *raceorc.Report
		for i := range reps {
			if !strings.Contains(reps[i].Sig, "outside-dst") && !strings.Contains(reps[i].Sig, "unknown") {
				r = &reps[i] // both accesses happen in (or under) dst code
				break
			}
		}
		if r == nil {
			// every report has a side without any dst frame: harness memory is involved (possible only
			// if dst starts goroutines of its own, or after a run was abandoned with a goroutine still
			// blocked inside dst). It says nothing about two accesses of dst's; counted so that it
			// shows in the evidence, never judged.
			run.Add("race-reports-without-dst-frames", int64(len(reps)))
		} else {
			run.Fail("c16/race", r.Sig, "data race between caller goroutines that share only what C16 allows:\n%s", r.Text)
			return
		}
	}
	// ---- isolated reference: every worker's pipelines alone, with PRIVATE resolver instances,
	// run AFTER the concurrent phase so that it cannot warm up (and thereby hide first-use races
	// on) any lazily initialised state, package-level or inside the shared instances.
	ref := make([][]opResult, nworkers)
	refPanic := make([]*core.PanicInfo, nworkers)
	for i, ps := range w.workers {
		e := env{ident: newIdentResolver(w.identKind, w.failPaths, w.panicPaths), name: newNameResolver(w.nameKind, w.nameFailPaths)}
		if w.ownGuess {
			e.name = ownGuessResolver(i)
		}
		if pi := core.Catch(func() {
			for j, p := range ps {
				execPipe(j, p, e, nil, &ref[i])
			}
		}); pi != nil {
			if strings.Contains(pi.Value, "injectedPanic") || strings.HasPrefix(pi.Value, "{") && len(w.panicPaths) > 0 {
				refPanic[i] = pi // the injected crash of this worker's own resolver call: expected
				run.Count("fault-fired/name-resolver-panic")
				continue
			}
			// a panic without any concurrency is not a C16 matter; the workload is skipped
			run.Count("reference-panicked")
			run.Event("reference panic %s", pi.Sig())
			return
		}
	}
	// ---- O4 no panic in any worker, except the one the injected crash kills when it runs alone too
	for i, st := range ws {
		if st.pi != nil && refPanic[i] == nil {
			run.Fail("c16/panic", st.pi.Sig(), "worker %d panicked under the schedule: %s\n%s", i, st.pi.Value, st.pi.Stack)
			return
		}
		if st.pi == nil && refPanic[i] != nil {
			run.Fail("c16/isolation", "panic-lost", "worker %d crashes when it runs alone (its resolver panics) but completed under the schedule", i)
			return
		}
	}
	// ---- O2 isolation: every result equals the one obtained alone
	for i, st := range ws {
		if refPanic[i] != nil {
			continue // died in both worlds; how far it got first is not compared
		}
		if len(st.res) != len(ref[i]) {
			run.Fail("c16/isolation", "op-count", "worker %d performed %d operations, alone it performs %d", i, len(st.res), len(ref[i]))
			return
		}
		for j := range st.res {
			a, b := st.res[j], ref[i][j]
			if a.Op != b.Op || a.Err != b.Err {
				run.Fail("c16/isolation", a.Op+":error", "worker %d op %d (%s): error %q, alone %q", i, j, a.Op, a.Err, b.Err)
				return
			}
			if a.Out != b.Out {
				run.Fail("c16/isolation", a.Op+":"+dump.DiffField(b.Out, a.Out), "worker %d op %d (%s) differs from the same call made alone: %s", i, j, a.Op, dump.FirstDiff(b.Out, a.Out))
				return
			}
			if a.Pkgs != b.Pkgs && a.Err == "" {
				// (when the restore failed, the calls made before the failing one are a map-order
				// dependent subset and say nothing)
				run.Fail("c16/isolation", a.Op+":resolver-calls", "worker %d op %d (%s) asked the name resolver for %q, alone for %q", i, j, a.Op, a.Pkgs, b.Pkgs)
				return
			}
		}
	}
	// ---- O3 (in schedule): repetitions of a pipeline inside a worker agree with each other
	for i := range w.workers {
		if refPanic[i] != nil {
			continue // the injected crash cut this worker short, in the schedule as when alone
		}
		if !repsAgree(run, ws[i].res, fmt.Sprintf("worker %d", i)) {
			return
		}
	}
}

// repsAgree checks that every repetition of a pipeline produced what its first repetition did.
func repsAgree(run *core.Run, res []opResult, who string) bool {
	byRep := map[[2]int][]opResult{}
	for _, r := range res {
		k := [2]int{r.Pipe, r.Rep}
		byRep[k] = append(byRep[k], r)
	}
	var ks [][2]int
	for k := range byRep {
		ks = append(ks, k)
	}
	sort.Slice(ks, func(i, j int) bool { return ks[i][0] < ks[j][0] || ks[i][0] == ks[j][0] && ks[i][1] < ks[j][1] })
	for _, k := range ks {
		if k[1] == 0 {
			continue
		}
		rs, base := byRep[k], byRep[[2]int{k[0], 0}]
		if len(base) != len(rs) {
			run.Fail("c16/repeat", "op-count", "%s pipe %d: repetition %d performed %d operations, the first %d", who, k[0], k[1], len(rs), len(base))
			return false
		}
		for o := range rs {
			if rs[o].Op != base[o].Op || rs[o].Err != base[o].Err {
				run.Fail("c16/repeat", rs[o].Op+":error", "%s pipe %d: repetition %d of %s on equal input: error %q, first time %q", who, k[0], k[1], rs[o].Op, rs[o].Err, base[o].Err)
				return false
			}
			if rs[o].Out != base[o].Out {
				run.Fail("c16/repeat", rs[o].Op+":"+dump.DiffField(base[o].Out, rs[o].Out), "%s pipe %d: repetition %d of %s on equal input differs from the first: %s", who, k[0], k[1], rs[o].Op, dump.FirstDiff(base[o].Out, rs[o].Out))
				return false
			}
		}
	}
	return true
}

func keys(m map[string]bool) []string {
	var ks []string
	for k := range m {
		ks = append(ks, k)
	}
	sort.Strings(ks)
	return ks
}

// runRepeat is oracle O3 outside any schedule: the only handle on "all map iteration orders" is
// repetition, because Go's map order is seeded privately by the runtime.
func runRepeat(run *core.Run) {
	t := run.T
	noExotic = false
	R := 8
	if run.Tier == "thorough" {
		R = 32
	}
	conflicts := true
	p := drawPipe(run, conflicts, true)
	if p.kind == pipePlain || p.kind == pipeSave || p.kind == pipeParseShared || p.kind == pipeFragment {
		p.kind = pipeManagedDecorate
		p.script = edits.Script(t, 3, true)
	}
	// bias towards what map order can influence: several imports added at once, several of them
	// with the same package name, several entries in Alias
	extra := 2 + t.Draw(4)
	conf := gen.ConflictIdx
	for i := 0; i < extra; i++ {
		pk := gen.Pool[conf[t.Draw(len(conf))]]
		p.script = append(p.script, edits.Edit{Kind: edits.AddUse, Path: pk.Path, Name: "Rep"})
	}
	if t.Bool(1, 2) {
		if p.alias == nil {
			p.alias = map[string]string{}
		}
		n := 2 + t.Draw(3)
		for i := 0; i < n; i++ {
			pk := gen.Pool[conf[t.Draw(len(conf))]]
			p.alias[pk.Path] = []string{"x", "util", "template", "ali"}[t.Draw(4)]
		}
	}
	p.extras = t.Bool(1, 3)
	if p.extras {
		// declarations that are removed from the file but still referenced by Objects are restored
		// after it, one after the other: their positions show the order they were visited in
		sp := gen.Source(t, gen.Options{MaxImports: 4, MaxDecls: 7, Conflicts: true})
		if sp.Decls >= 4 {
			p.src = sp.Src
			p.script = append([]edits.Edit{{Kind: edits.RemoveDecl, N: t.Draw(8)}, {Kind: edits.RemoveDecl, N: t.Draw(8)}, {Kind: edits.RemoveDecl, N: t.Draw(8)}}, p.script...)
		}
	}
	p.reps = 1
	if p.sameAst {
		p.reps = 2 // the same *ast.File through the same resolver instance, twice
	}
	identKind := t.Draw(numIdentKinds)
	nameKind := []int{faults.KindGuessMap, faults.KindSimple, faults.KindHints, faults.KindGuess, faults.KindGobuild}[t.Draw(5)]
	if identKind == identGoastGopackages {
		identKind = identGoastMap // repetition runs use unknown paths: keep `go list` out of it
	}
	withDir := t.Bool(1, 4)
	run.Describe("repeat x%d: ident %s, name %s, extras=%v, edits=%v alias=%v, ParseDir=%v\n%s", R, identKindNames[identKind], faults.KindName(nameKind), p.extras, p.script, p.alias, withDir, p.src)
	run.Count("repeat-runs")
	var first []opResult
	var firstAst string
	for rep := 0; rep < R; rep++ {
		var res []opResult
		e := env{ident: newIdentResolver(identKind, nil), name: faults.NameResolver(nameKind, gen.Truth())}
		if pi := core.Catch(func() { execPipe(0, p, e, nil, &res) }); pi != nil {
			run.Count("reference-panicked")
			return
		}
		// the restored ast itself (positions included), through RestoreFile with a fresh FileSet
		astDump := restoredAstDump(p, e)
		run.Add("repetitions", 1)
		if !repsAgree(run, res, fmt.Sprintf("repetition %d", rep)) {
			return
		}
		if rep == 0 {
			first, firstAst = res, astDump
			run.Case("repeat:" + dump.HashString(fmt.Sprint(res)))
			continue
		}
		if len(res) != len(first) {
			run.Fail("c16/repeat", "op-count", "repetition %d performed %d operations, the first %d", rep, len(res), len(first))
			return
		}
		for j := range res {
			if res[j].Err != first[j].Err && !(strings.HasPrefix(res[j].Err, "could not resolve package") && strings.HasPrefix(first[j].Err, "could not resolve package")) {
				run.Fail("c16/repeat", res[j].Op+":error", "repetition %d of %s on equal input: error %q, first time %q", rep, res[j].Op, res[j].Err, first[j].Err)
				return
			}
			if res[j].Out != first[j].Out {
				run.Fail("c16/repeat", res[j].Op+":"+dump.DiffField(first[j].Out, res[j].Out), "repetition %d of %s on equal input differs: %s", rep, res[j].Op, dump.FirstDiff(first[j].Out, res[j].Out))
				return
			}
		}
		if astDump != firstAst {
			run.Fail("c16/repeat", "restored-ast:"+dump.DiffField(firstAst, astDump), "repetition %d: RestoreFile on equal input gave a different ast: %s", rep, dump.FirstDiff(firstAst, astDump))
			return
		}
	}
	if withDir {
		repeatParseDir(run, R)
	}
}

func restoredAstDump(p pipeSpec, e env) (out string) {
	core.Catch(func() {
		fset := token.NewFileSet()
		dec := decorator.NewDecoratorWithImports(fset, LocalPath, e.ident)
		f, err := dec.ParseFile("w.go", p.src, 0)
		if err != nil {
			out = "decorate-error"
			return
		}
		edits.Apply(f, p.script)
		r := decorator.NewRestorerWithImports(LocalPath, e.name)
		r.Extras = p.extras
		fr := r.FileRestorer()
		for k, v := range p.alias {
			fr.Alias[k] = v
		}
		af, err := fr.RestoreFile(f)
		if err != nil {
			out = "restore-error"
			return
		}
		out = dump.String(af, dump.Options{Pos: true})
	})
	return
}

// repeatParseDir: ParseDir iterates over maps of packages and files.
func repeatParseDir(run *core.Run, R int) {
	t := run.T
	dir, err := ioutil.TempDir("", "dstsim-c16-")
	if err != nil {
		panic("harness: " + err.Error())
	}
	defer os.RemoveAll(dir)
	nf := 2 + t.Draw(4)
	for i := 0; i < nf; i++ {
		pkg := "p"
		if t.Bool(1, 4) {
			pkg = "q"
		}
		sp := gen.Source(t, gen.Options{MaxImports: 3, MaxDecls: 3, PkgName: pkg})
		ioutil.WriteFile(filepath.Join(dir, fmt.Sprintf("f%d.go", i)), []byte(sp.Src), 0644)
	}
	run.Count("repeat-parsedir")
	var first string
	for rep := 0; rep < R; rep++ {
		var sb strings.Builder
		if pi := core.Catch(func() {
			pkgs, err := decorator.ParseDir(token.NewFileSet(), dir, nil, 0)
			if err != nil {
				sb.WriteString("error " + err.Error())
				return
			}
			var names []string
			for n := range pkgs {
				names = append(names, n)
			}
			sort.Strings(names)
			for _, n := range names {
				var fns []string
				for fn := range pkgs[n].Files {
					fns = append(fns, fn)
				}
				sort.Strings(fns)
				for _, fn := range fns {
					sb.WriteString(filepath.Base(fn) + "\n")
					sb.WriteString(dump.String(pkgs[n].Files[fn], dump.Options{}))
					var buf bytes.Buffer
					if err := decorator.Fprint(&buf, pkgs[n].Files[fn]); err != nil {
						sb.WriteString("print error " + err.Error())
					}
					sb.Write(buf.Bytes())
				}
			}
		}); pi != nil {
			run.Count("reference-panicked")
			return
		}
		if rep == 0 {
			first = sb.String()
			continue
		}
		if sb.String() != first {
			run.Fail("c16/repeat", "ParseDir:"+dump.DiffField(first, sb.String()), "repetition %d of ParseDir on an unchanged directory differs: %s", rep, dump.FirstDiff(first, sb.String()))
			return
		}
	}
}
