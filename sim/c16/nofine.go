//go:build !(linux && yieldinst)

package c16

// SetProbeYield is a no-op without the instrumented copy.
func SetProbeYield(on bool) {}
