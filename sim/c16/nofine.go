//go:build !(linux && yieldinst)

package c16
