// Package edits applies tape-chosen edits to a *dst.File. An edit script is a value, so the same
// script can be applied to a subject tree and to its independently constructed twin.
package edits

import (
	"fmt"
	"go/token"

	"github.com/dave/dst"

	"verifsim/gen"
	"verifsim/tape"
)

// LocalPath is the package path every engine uses for the package being decorated / restored.
const LocalPath = "sim.local/pkg"

type Kind int

const (
	AddUse         Kind = iota // add `var _ = <pkg>.<Name>` using an Ident with Path set
	AddCall                    // add a call statement to the first function body
	RemoveDecl                 // remove the n-th non-import declaration
	Repath                     // change the Path of the n-th remote identifier to another package
	Unpath                     // make the n-th remote identifier local
	AddComment                 // add a comment to the n-th declaration
	SwapDecls                  // swap two non-import declarations
	RemoveUses                 // make every use of one package local (its import must then go)
	DropImportSpec             // hand-edit: delete the n-th import spec from its declaration (File.Imports is left as it was)
	AddImportSpec              // hand-edit: append an import spec to the first import declaration (File.Imports is left as it was)
	UnpathAll                  // make every remote identifier local: every import becomes unused at once
	NumKinds
)

type Edit struct {
	Kind Kind
	N    int
	M    int
	Path string
	Name string
}

func (e Edit) String() string {
	names := [...]string{"AddUse", "AddCall", "RemoveDecl", "Repath", "Unpath", "AddComment", "SwapDecls", "RemoveUses", "DropImportSpec", "AddImportSpec", "UnpathAll"}
	return fmt.Sprintf("%s(n=%d,m=%d,path=%q,name=%q)", names[e.Kind], e.N, e.M, e.Path, e.Name)
}

// DupPath is a package that no name table names exactly; the truth map only holds two VENDORED
// copies of it with different names (gen.Truth). Resolvers must not fish for it.
const DupPath = "v.io/dup"

// Script draws an edit script. exotic (optional) allows paths that the name tables cannot name.
func Script(t *tape.Tape, max int, conflicts bool, exotic ...bool) []Edit {
	n := t.Draw(max + 1)
	var out []Edit
	for i := 0; i < n; i++ {
		e := Edit{Kind: Kind(t.Draw(int(NumKinds))), N: t.Draw(8), M: t.Draw(8)}
		var p gen.Pkg
		if conflicts && t.Bool(2, 3) {
			p = gen.Pool[gen.ConflictIdx[t.Draw(len(gen.ConflictIdx))]]
		} else {
			p = gen.Pool[t.Draw(gen.NumPlain)] // never the vendor path: dst strips it on decorate only
		}
		e.Path = p.Path
		if len(exotic) > 0 && exotic[0] && t.Bool(1, 12) {
			e.Path = DupPath
		} else if len(exotic) > 0 && exotic[0] && t.Bool(1, 16) {
			e.Path = "C" // the cgo pseudo-package as the package of an identifier the caller adds
		}
		if t.Bool(1, 10) {
			// an identifier that carries the LOCAL package path (what ResolveLocalPath or hand-moved
			// code produces): the restorer must print it unqualified and must not need an import
			e.Path = LocalPath
		}
		e.Name = []string{"Foo", "Bar", "New", "Added"}[t.Draw(4)]
		out = append(out, e)
	}
	return out
}

func nonImportDecls(f *dst.File) []int {
	var idx []int
	for i, d := range f.Decls {
		if gd, ok := d.(*dst.GenDecl); ok && gd.Tok == token.IMPORT {
			continue
		}
		idx = append(idx, i)
	}
	return idx
}

func remoteIdents(f *dst.File) []*dst.Ident {
	var out []*dst.Ident
	dst.Inspect(f, func(n dst.Node) bool {
		if id, ok := n.(*dst.Ident); ok && id.Path != "" {
			out = append(out, id)
		}
		return true
	})
	return out
}

// Apply applies the script in order.
func Apply(f *dst.File, script []Edit) {
	for _, e := range script {
		apply(f, e)
	}
}

func apply(f *dst.File, e Edit) {
	switch e.Kind {
	case AddUse:
		f.Decls = append(f.Decls, &dst.GenDecl{
			Tok: token.VAR,
			Specs: []dst.Spec{&dst.ValueSpec{
				Names:  []*dst.Ident{dst.NewIdent("_")},
				Values: []dst.Expr{&dst.Ident{Name: e.Name, Path: e.Path}},
			}},
			Decs: dst.GenDeclDecorations{NodeDecs: dst.NodeDecs{Before: dst.EmptyLine, After: dst.NewLine}},
		})
	case AddCall:
		for _, d := range f.Decls {
			fd, ok := d.(*dst.FuncDecl)
			if !ok || fd.Body == nil {
				continue
			}
			st := &dst.ExprStmt{X: &dst.CallExpr{Fun: &dst.Ident{Name: e.Name, Path: e.Path}}}
			st.Decs.Before = dst.NewLine
			st.Decs.After = dst.NewLine
			fd.Body.List = append([]dst.Stmt{st}, fd.Body.List...)
			return
		}
		apply(f, Edit{Kind: AddUse, Path: e.Path, Name: e.Name})
	case RemoveDecl:
		idx := nonImportDecls(f)
		if len(idx) <= 1 {
			return
		}
		i := idx[e.N%len(idx)]
		f.Decls = append(f.Decls[:i:i], f.Decls[i+1:]...)
	case Repath:
		ids := remoteIdents(f)
		if len(ids) == 0 {
			return
		}
		ids[e.N%len(ids)].Path = e.Path
	case Unpath:
		ids := remoteIdents(f)
		if len(ids) == 0 {
			return
		}
		ids[e.N%len(ids)].Path = ""
	case AddComment:
		if len(f.Decls) == 0 {
			return
		}
		d := f.Decls[e.N%len(f.Decls)]
		d.Decorations().Start.Append("// edited " + e.Name)
		if d.Decorations().Before == dst.None {
			d.Decorations().Before = dst.NewLine
		}
	case SwapDecls:
		idx := nonImportDecls(f)
		if len(idx) < 2 {
			return
		}
		i, j := idx[e.N%len(idx)], idx[e.M%len(idx)]
		f.Decls[i], f.Decls[j] = f.Decls[j], f.Decls[i]
	case DropImportSpec, AddImportSpec:
		var blocks []*dst.GenDecl
		for _, d := range f.Decls {
			if gd, ok := d.(*dst.GenDecl); ok && gd.Tok == token.IMPORT {
				blocks = append(blocks, gd)
			}
		}
		if len(blocks) == 0 {
			return
		}
		if e.Kind == AddImportSpec {
			gd := blocks[0]
			if len(gd.Specs) == 1 && gd.Specs[0].(*dst.ImportSpec).Path.Value == `"C"` {
				return
			}
			for _, b := range blocks {
				for _, sp := range b.Specs {
					if sp.(*dst.ImportSpec).Path.Value == fmt.Sprintf("%q", e.Path) {
						return
					}
				}
			}
			is := &dst.ImportSpec{Path: &dst.BasicLit{Kind: token.STRING, Value: fmt.Sprintf("%q", e.Path)}}
			is.Decs.Before, is.Decs.After = dst.NewLine, dst.NewLine
			gd.Specs = append(gd.Specs, is)
			gd.Lparen, gd.Rparen = true, true
			return
		}
		gd := blocks[e.N%len(blocks)]
		if len(gd.Specs) < 2 {
			return
		}
		i := e.M % len(gd.Specs)
		gd.Specs = append(gd.Specs[:i:i], gd.Specs[i+1:]...)
	case UnpathAll:
		for _, id := range remoteIdents(f) {
			id.Path = ""
		}
	case RemoveUses:
		ids := remoteIdents(f)
		if len(ids) == 0 {
			return
		}
		p := ids[e.N%len(ids)].Path
		for _, id := range ids {
			if id.Path == p {
				id.Path = ""
			}
		}
	}
}
