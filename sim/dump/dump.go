// Package dump serialises any go/ast or dst value with a harness-owned reflect walk. It does not
// use dst.Walk, dst.Clone or dstutil.Decorations, so a defect in those cannot leak into an oracle.
// "Tree unmodified" and "equal trees" in the checks mean equal dumps.
package dump

import (
	"crypto/sha256"
	"encoding/hex"
	"fmt"
	"go/token"
	"reflect"
	"sort"
	"strings"
)

type Options struct {
	Pos bool // include token.Pos values
}

type dumper struct {
	sb   strings.Builder
	ids  map[uintptr]int // pointer identity -> first-visit number
	maps map[uintptr]int
	opt  Options
}

var posType = reflect.TypeOf(token.Pos(0))

// String returns the full dump of v.
func String(v interface{}, opt Options) string {
	d := &dumper{ids: map[uintptr]int{}, maps: map[uintptr]int{}, opt: opt}
	d.val(reflect.ValueOf(v), 0)
	return d.sb.String()
}

// Hash returns a short hash of the dump.
func Hash(v interface{}, opt Options) string {
	return HashString(String(v, opt))
}

func HashString(s string) string {
	h := sha256.Sum256([]byte(s))
	return hex.EncodeToString(h[:8])
}

func (d *dumper) indent(n int) {
	for i := 0; i < n; i++ {
		d.sb.WriteByte(' ')
	}
}

func (d *dumper) val(v reflect.Value, depth int) {
	if !v.IsValid() {
		d.sb.WriteString("nil\n")
		return
	}
	switch v.Kind() {
	case reflect.Interface:
		if v.IsNil() {
			d.sb.WriteString("nil\n")
			return
		}
		d.val(v.Elem(), depth)
	case reflect.Ptr:
		if v.IsNil() {
			d.sb.WriteString("nil\n")
			return
		}
		p := v.Pointer()
		if id, ok := d.ids[p]; ok {
			fmt.Fprintf(&d.sb, "@%d\n", id)
			return
		}
		id := len(d.ids) + 1
		d.ids[p] = id
		fmt.Fprintf(&d.sb, "&%d ", id)
		d.val(v.Elem(), depth)
	case reflect.Struct:
		t := v.Type()
		fmt.Fprintf(&d.sb, "%s{\n", t.String())
		for i := 0; i < v.NumField(); i++ {
			f := t.Field(i)
			if f.PkgPath != "" {
				// unexported: still dump through unsafe-free reflection when possible
				fv := v.Field(i)
				d.indent(depth + 1)
				d.sb.WriteString(f.Name)
				d.sb.WriteString(": ")
				d.unexported(fv, depth+1)
				continue
			}
			fv := v.Field(i)
			if !d.opt.Pos && fv.Type() == posType {
				continue
			}
			d.indent(depth + 1)
			d.sb.WriteString(f.Name)
			d.sb.WriteString(": ")
			d.val(fv, depth+1)
		}
		d.indent(depth)
		d.sb.WriteString("}\n")
	case reflect.Slice:
		if v.IsNil() {
			d.sb.WriteString("nil-slice\n")
			return
		}
		fmt.Fprintf(&d.sb, "%s[%d]{\n", v.Type().String(), v.Len())
		for i := 0; i < v.Len(); i++ {
			d.indent(depth + 1)
			fmt.Fprintf(&d.sb, "%d: ", i)
			d.val(v.Index(i), depth+1)
		}
		d.indent(depth)
		d.sb.WriteString("}\n")
	case reflect.Map:
		if v.IsNil() {
			d.sb.WriteString("nil-map\n")
			return
		}
		p := v.Pointer()
		if id, ok := d.maps[p]; ok {
			fmt.Fprintf(&d.sb, "@map%d\n", id)
			return
		}
		d.maps[p] = len(d.maps) + 1
		keys := v.MapKeys()
		if v.Type().Key().Kind() != reflect.String {
			// only string-keyed maps occur in ast/dst (Scope.Objects, Package.Files/Imports, Alias)
			fmt.Fprintf(&d.sb, "%s(len=%d, unordered)\n", v.Type().String(), v.Len())
			return
		}
		sort.Slice(keys, func(i, j int) bool { return keys[i].String() < keys[j].String() })
		fmt.Fprintf(&d.sb, "%s[%d]{\n", v.Type().String(), v.Len())
		for _, k := range keys {
			d.indent(depth + 1)
			fmt.Fprintf(&d.sb, "%q: ", k.String())
			d.val(v.MapIndex(k), depth+1)
		}
		d.indent(depth)
		d.sb.WriteString("}\n")
	case reflect.String:
		fmt.Fprintf(&d.sb, "%q\n", v.String())
	case reflect.Bool:
		fmt.Fprintf(&d.sb, "%v\n", v.Bool())
	case reflect.Int, reflect.Int8, reflect.Int16, reflect.Int32, reflect.Int64:
		fmt.Fprintf(&d.sb, "%d\n", v.Int())
	case reflect.Uint, reflect.Uint8, reflect.Uint16, reflect.Uint32, reflect.Uint64, reflect.Uintptr:
		fmt.Fprintf(&d.sb, "%d\n", v.Uint())
	case reflect.Func:
		if v.IsNil() {
			d.sb.WriteString("nil-func\n")
		} else {
			d.sb.WriteString("func\n")
		}
	default:
		fmt.Fprintf(&d.sb, "<%s>\n", v.Kind())
	}
}

// unexported fields cannot be Interface()d; dump their scalar content only.
func (d *dumper) unexported(v reflect.Value, depth int) {
	switch v.Kind() {
	case reflect.String:
		fmt.Fprintf(&d.sb, "%q\n", v.String())
	case reflect.Bool:
		fmt.Fprintf(&d.sb, "%v\n", v.Bool())
	case reflect.Int, reflect.Int8, reflect.Int16, reflect.Int32, reflect.Int64:
		fmt.Fprintf(&d.sb, "%d\n", v.Int())
	case reflect.Ptr, reflect.Interface, reflect.Slice, reflect.Map:
		if v.IsNil() {
			d.sb.WriteString("nil\n")
		} else {
			d.val(v, depth)
		}
	case reflect.Struct:
		d.val(v, depth)
	default:
		fmt.Fprintf(&d.sb, "<%s>\n", v.Kind())
	}
}

// FirstDiff returns a short description of the first differing line of two dumps.
func FirstDiff(a, b string) string {
	la := strings.Split(a, "\n")
	lb := strings.Split(b, "\n")
	n := len(la)
	if len(lb) < n {
		n = len(lb)
	}
	for i := 0; i < n; i++ {
		if la[i] != lb[i] {
			return fmt.Sprintf("line %d: %q vs %q", i+1, strings.TrimSpace(la[i]), strings.TrimSpace(lb[i]))
		}
	}
	if len(la) != len(lb) {
		return fmt.Sprintf("length %d vs %d lines", len(la), len(lb))
	}
	return ""
}

// DiffField returns just the field name at the first differing line (stable across inputs),
// used in violation signatures.
func DiffField(a, b string) string {
	la := strings.Split(a, "\n")
	lb := strings.Split(b, "\n")
	n := len(la)
	if len(lb) < n {
		n = len(lb)
	}
	for i := 0; i < n; i++ {
		if la[i] != lb[i] {
			s := strings.TrimSpace(la[i])
			if j := strings.Index(s, ":"); j > 0 {
				return s[:j]
			}
			return "line"
		}
	}
	if len(la) != len(lb) {
		return "length"
	}
	return ""
}
