package main

import (
	"time"

	"verifsim/c15"
	"verifsim/c16"
	"verifsim/c17"
	"verifsim/c20"
	"verifsim/raceorc"
)

func init() {
	register(&Engine{Prop: "C17", Run: c17.Run, Watchdog: 120 * time.Second, Info: func() map[string]interface{} {
		return map[string]interface{}{
			"rule": "one run = one tape-drawn workload (generated import-rich source x goast-over-{guess,simple,gobuild} x edit script x Alias map x entry point), " +
				"then EVERY single-fault plan over its resolver call sequence (ident call k=1..N, inner name-resolver call j=1..M, restore side every resolved path and every call index, natural not-found per path) " +
				"plus tape-sampled 2-3 fault sequences; in a third of the runs also every fault position while decorating an isolated declaration (DecorateNode) and a directory (ParseDir) with a caller-supplied resolver. evaluations = faulted operations in which the injected fault actually fired. " +
				"A case is (workload hash, fault plan); it is counted as distinct_nontrivial only if the fault fired in it; distinctness is by 64-bit hash merged over all processes.",
			"in_call_race_probe": "a slice of the runs (other run indices than the main leg, counted in reach_probes as in-call-race-probe-runs) executes in the race-detector build of the same engine: the engine calls dst from one goroutine, so a race report with both accesses in dst code means dst started goroutines of its own that share state unsynchronised (violation <prop>/race-inside-call); a process that dies without the crash repeating on replay is re-executed there before it is called infrastructure trouble",
			"real":               []string{"decorator.Decorator (DecorateFile, DecorateNode, ParseFile)", "decorator.Restorer / FileRestorer (Fprint, RestoreFile, updateImports)", "goast.DecoratorResolver", "guess / simple / gobuild RestorerResolver", "go/parser", "go/format"},
			"stub":               []string{"gobuild FindPackage (map-backed finder instead of the file system)", "fault-injecting wrappers around the public resolver interfaces"},
			"not_run":            []string{"gotypes resolver", "gopackages resolver", "decorator.Load"},
			"assumptions": []string{
				"the reflective dump (all exported fields, decorations, spacing, Path, pointer identity, positions for ast) is the meaning of 'tree unmodified' and 'equal result'",
				"injected errors are compared with errors.Is, never by message",
				"single-fault enumeration is exhaustive per workload; workloads and multi-fault sequences are sampled",
			},
		}
	}})
	register(&Engine{Prop: "C20", Run: c20.Run, Watchdog: 120 * time.Second, Info: func() map[string]interface{} {
		return map[string]interface{}{
			"rule": "one run = one history over a hand-built decorator.Package (1-6 generated files in 1-3 simulated directories, tape-chosen Syntax order, bystander files on the disk): " +
				"[edits] Save [edits] Save ... final fault-free Save, each Save with a tape-chosen fault (resolver failure at file i by path / by k-th call / natural not-found, disk error or torn write at the j-th write). " +
				"evaluations = Save calls executed; a case is (package hash, Syntax order, resolver kind, save index, fault kind, fault position) and is non-trivial because every Save is checked against the twin package and the disk model; distinct by 64-bit hash over all processes.",
			"in_call_race_probe": "a slice of the runs (other run indices than the main leg, counted in reach_probes as in-call-race-probe-runs) executes in the race-detector build of the same engine: the engine calls dst from one goroutine, so a race report with both accesses in dst code means dst started goroutines of its own that share state unsynchronised (violation <prop>/race-inside-call); a process that dies without the crash repeating on replay is re-executed there before it is called infrastructure trouble",
			"real":               []string{"decorator.Package.save via the verif hook (and the exported SaveWithResolver on a real scratch directory in 1/8 of the runs)", "decorator.Decorator.ParseFile with goast over guess", "decorator.Restorer.Fprint with import management", "guess / simple / gobuild RestorerResolver", "go/parser", "go/format"},
			"stub":               []string{"disk behind the writeFile seam (map + journal; error-before-any-byte and torn-write faults)", "gobuild FindPackage (map-backed)", "packages.Package (only PkgPath and Fset set)"},
			"not_run":            []string{"decorator.Load / packages.Load (go list subprocess)", "Package.Save() with the gopackages resolver"},
			"assumptions": []string{
				"'the import-managed print of that file' is Restorer.Fprint of an independently constructed twin tree with a fresh restorer per file",
				"a lying disk (silently lost or misdirected writes) is not simulated; whether later files are attempted after a write error is not demanded",
				"crash atomicity of Save is not promised by C20 and not checked",
			},
		}
	}})
	register(&Engine{Prop: "C15", Run: c15.Run, Watchdog: 300 * time.Second, Info: func() map[string]interface{} {
		return map[string]interface{}{
			"rule": "one run = one stored source (embedded corpus of 133 real/edge-case files or a generated file) and one fault mode: exhaustive truncation at every byte offset or a comment inserted at every token boundary (sources <= 3000 bytes), reader errors at ~64 offsets plus (n>0, EOF) readers, writer errors at ~48 offsets, or 24 tape-sampled inputs with 1-3 composed storage faults (truncate, bitflip, zero/garbage/drop/dup/swap range, syntax byte, comment insertion); each faulted input goes through one of 8 parse entry points and every tree returned through every printer. " +
				"evaluations = faulted inputs parsed; a case is (input bytes hash, entry point, parser mode, FileSet preload, stream fault) and is non-trivial when the bytes differ from the stored source or a stream fault is armed; distinct by 64-bit hash over all processes.",
			"in_call_race_probe": "a slice of the runs (other run indices than the main leg, counted in reach_probes as in-call-race-probe-runs) executes in the race-detector build of the same engine: the engine calls dst from one goroutine, so a race report with both accesses in dst code means dst started goroutines of its own that share state unsynchronised (violation <prop>/race-inside-call); a process that dies without the crash repeating on replay is re-executed there before it is called infrastructure trouble",
			"real":               []string{"decorator.Parse / ParseFile / ParseDir / DecorateFile / Decorator with imports", "decorator.Fprint / RestoreFile / Restorer(imports).Fprint / Restorer(Extras)", "goast + guess resolvers", "go/parser", "go/format"},
			"stub":               []string{"faulty io.Reader / io.Writer", "storage-fault transformer over the stored bytes"},
			"not_run":            []string{"decorator.Load", "decorator.Print (stdout)"},
			"assumptions": []string{
				"partial claim: only inputs derivable from the corpus by storage faults and run-time stream failures are covered, not arbitrary byte strings",
				"'erroneous input' is decided by go/parser on the same bytes and mode, independently of dst",
				"nothing is demanded of the content printed for broken input",
			},
		}
	}})
	if raceorc.Enabled {
		register(&Engine{Prop: "C16", Run: c16.Run, Init: c16.Init, Isolated: true, Watchdog: 1200 * time.Second, Info: func() map[string]interface{} {
			return map[string]interface{}{
				"rule": "3/4 of the runs are scheduled runs: 2-6 real caller goroutines (1-3 pipelines each: Parse->Fprint (or RestoreFile / decision point / format.Node), DecorateFile/ParseFile with import management through a SHARED goast resolver -> tape-drawn edits -> import-managed Fprint through a SHARED read-only name resolver (optionally one reused FileRestorer per worker) -> re-decorate, or a Package over a FileSet shared by all workers saved to a private simulated disk), serialised by a race-detector-invisible scheduler whose every decision (first worker, change points / round-robin quantum / sticky-random switches, decision-point granularity: resolver calls only, or every function entry and statement of an instrumented copy of the library) comes from the tape; oracles: race detector (O1), equality with an isolated sequential reference (O2), in-worker repetition (O3), no panic (O4), progress (O5). " +
					"1/4 are repetition runs: decorate / restore / RestoreFile / ParseDir repeated R times (8 quick, 32 thorough) on equal inputs biased to map-derived choices. evaluations = runs; a scheduled run's distinct case is the hash of its (worker, site) sequence at context switches together with the shared kinds; a repetition run's is the hash of its results; distinct by 64-bit hash over all processes.",
				"real":    []string{"decorator.Decorator / Restorer / FileRestorer, one private instance per operation", "one shared goast.DecoratorResolver per run (New(), or over guess / simple / gobuild)", "one shared guess / simple / gobuild RestorerResolver per run", "go/parser, go/format", "Go race detector (ThreadSanitizer runtime) as the happens-before judge", "real goroutines"},
				"stub":    []string{"scheduler: turn word in raw-mmap'd memory, decisions from the tape", "gobuild FindPackage (map-backed)", "optional permanently failing path inside the shared name resolver"},
				"not_run": []string{"gotypes / gopackages resolvers", "decorator.Load", "sharing a Decorator or Restorer between goroutines (outside C16's statement)"},
				"assumptions": []string{
					"decision points are operation boundaries, every resolver call and (half of the scheduled runs) every function entry and statement of dst; standard-library code between them runs atomically",
					"a hang is re-examined at coarser decision-point granularity (statement -> resolver call -> operation boundary) and reported only if it persists where no dst code is on a parked worker's stack",
					"the race detector sees only accesses that execute, within its bounded history",
					"map iteration order cannot be seeded from outside the Go runtime; it is sampled by repetition, so a map-order violation replays with high probability rather than certainty",
				},
			}
		}})
	}
}
