package main

import (
	"time"

	"verifsim/c17"
)

func init() {
	register(&Engine{Prop: "C17", Run: c17.Run, Watchdog: 120 * time.Second, Info: func() map[string]interface{} {
		return map[string]interface{}{
			"rule": "one run = one tape-drawn workload (generated import-rich source x goast-over-{guess,simple,gobuild} x edit script x Alias map x entry point), " +
				"then EVERY single-fault plan over its resolver call sequence (ident call k=1..N, inner name-resolver call j=1..M, restore side every resolved path and every call index, natural not-found per path) " +
				"plus tape-sampled 2-3 fault sequences. evaluations = faulted operations in which the injected fault actually fired. " +
				"A case is (workload hash, fault plan); it is counted as distinct_nontrivial only if the fault fired in it; distinctness is by 64-bit hash merged over all processes.",
			"real": []string{"decorator.Decorator (DecorateFile, DecorateNode, ParseFile)", "decorator.Restorer / FileRestorer (Fprint, RestoreFile, updateImports)", "goast.DecoratorResolver", "guess / simple / gobuild RestorerResolver", "go/parser", "go/format"},
			"stub": []string{"gobuild FindPackage (map-backed finder instead of the file system)", "fault-injecting wrappers around the public resolver interfaces"},
			"not_run": []string{"gotypes resolver", "gopackages resolver", "decorator.Load"},
			"assumptions": []string{
				"the reflective dump (all exported fields, decorations, spacing, Path, pointer identity, positions for ast) is the meaning of 'tree unmodified' and 'equal result'",
				"injected errors are compared with errors.Is, never by message",
				"single-fault enumeration is exhaustive per workload; workloads and multi-fault sequences are sampled",
			},
		}
	}})
}
