// dstsim is the simulator binary. Sub-commands:
//
//	batch  -prop P -seed S -runs N -tier T -out DIR -id I   run N seeded runs, write stats / violations
//	replay FILE                                            re-execute a replay file in this process
//	shrink FILE -out FILE2 [-budget 60s] [-proc]            minimise the tape of a replay file
//	merge  FILES...                                        count distinct 64-bit case hashes
//
// Exit codes: 0 = nothing violated, 1 = violation (replay: reproduced), 2 = infrastructure trouble,
// 3 = replay found a different violation than recorded.
package main

import (
	"encoding/binary"
	"encoding/json"
	"flag"
	"fmt"
	"hash/fnv"
	"io/ioutil"
	"os"
	"os/exec"
	"path/filepath"
	"regexp"
	"runtime"
	"runtime/debug"
	"sort"
	"strings"
	"sync"
	"sync/atomic"
	"time"

	"verifsim/c16"
	"verifsim/core"
	"verifsim/raceorc"
	"verifsim/tape"
)

// Engine is one property's simulated check.
type Engine struct {
	Prop     string
	Run      func(*core.Run)
	Isolated bool          // violations must be judged in a fresh process (race verdicts)
	Watchdog time.Duration // per-run wall limit (hang -> exit 2, never VIOLATION)
	Init     func() error  // once per process (e.g. race-oracle canary)
	Info     func() map[string]interface{}
}

var engines = map[string]*Engine{}

func register(e *Engine) { engines[e.Prop] = e }

// ReplayFile is what a violation is reported as.
type ReplayFile struct {
	Property    string          `json:"property"`
	Seed        uint64          `json:"seed"`
	Tier        string          `json:"tier"`
	Tape        []uint32        `json:"tape"`
	Violation   *core.Violation `json:"violation"`
	Description []string        `json:"description"`
	Events      []string        `json:"events,omitempty"`
	Minimised   bool            `json:"minimised"`
	OrigTapeLen int             `json:"original_tape_len,omitempty"`
	ShrinkTried int             `json:"shrink_candidates_tried,omitempty"`
	ReplayCmd   string          `json:"replay_cmd"`
	Binary      string          `json:"binary"`
	// Context identifies the runs that preceded this one in its OS process. A violation that
	// depends on state dst keeps across calls (a package-level pool or cache warmed by earlier
	// runs) replays only after the same history: `replay -context` re-executes those runs first.
	Context *BatchContext `json:"context,omitempty"`
}

type BatchContext struct {
	BatchSeed uint64 `json:"batch_seed"`
	First     int    `json:"first"`
	Index     int    `json:"index"`
}

type BatchStats struct {
	Property   string                 `json:"property"`
	Tier       string                 `json:"tier"`
	Seed       uint64                 `json:"seed"`
	ID         int                    `json:"id"`
	Runs       int                    `json:"runs"`
	Steps      int64                  `json:"steps"`
	Counters   map[string]int64       `json:"counters"`
	Distinct   int                    `json:"distinct_in_process"`
	Violations []string               `json:"violation_files"`
	Known      []string               `json:"known_finding_files"`
	Samples    [][]string             `json:"samples"`
	WallS      float64                `json:"wall_s"`
	TapeLens   int64                  `json:"tape_entries"`
	Info       map[string]interface{} `json:"info,omitempty"`
	Stopped    string                 `json:"stopped,omitempty"`
}

func die(code int, format string, a ...interface{}) {
	fmt.Fprintf(raceorc.Stderr(), format+"\n", a...)
	os.Exit(code)
}

// isolated: violations of this engine in this binary are judged in a fresh process (the race
// detector reports a given pair of stacks once per process).
func isolated(e *Engine) bool { return e.Isolated || raceorc.Enabled }

func binaryName() string {
	return filepath.Base(os.Args[0])
}

// guardedBody only exists to be found in goroutine dumps.
//
//go:noinline
func guardedBody(f func()) { f() }

var goroutineHdr = regexp.MustCompile(`^goroutine \d+ \[([^\],]+)`)

// hungInDst inspects all goroutine stacks: if the goroutine running the engine is blocked on a
// synchronisation primitive with dave/dst frames on its stack, nobody can ever wake it (the engine
// body is the only code running dst there), so this is a deadlock inside dst, not slowness.
func hungInDst() (fn string, stack string, ok bool) {
	buf := make([]byte, 1<<20)
	n := runtime.Stack(buf, true)
	for _, g := range strings.Split(string(buf[:n]), "\n\n") {
		if !strings.Contains(g, "main.guardedBody") {
			continue
		}
		m := goroutineHdr.FindStringSubmatch(g)
		if m == nil {
			return "", "", false
		}
		switch m[1] {
		case "sync.Mutex.Lock", "sync.RWMutex.Lock", "sync.RWMutex.RLock", "semacquire", "sync.Cond.Wait", "chan receive", "chan send", "select", "select (no cases)", "sync.WaitGroup.Wait":
		default:
			return "", "", false
		}
		for _, line := range strings.Split(g, "\n") {
			if strings.HasPrefix(line, "github.com/dave/dst") {
				fn = strings.TrimPrefix(strings.TrimPrefix(line, "github.com/dave/dst/"), "github.com/dave/dst")
				if i := strings.LastIndex(fn, "("); i > 0 {
					fn = fn[:i]
				}
				return fn + "|" + strings.Replace(m[1], " ", "_", -1), g, true
			}
		}
		return "", "", false
	}
	return "", "", false
}

const hangProbe = 12 * time.Second

func runOne(e *Engine, t *tape.Tape, tier string) *core.Run {
	run := core.NewRun(e.Prop, t, tier)
	done := make(chan struct{})
	var engineCrash interface{}
	// In-call race probe (race binary, every engine but C16, which judges races itself): these
	// engines drive dst from ONE goroutine, so a race report whose two accesses both lie in dst code
	// means dst started goroutines of its own that touch shared state without synchronisation -
	// the condition behind a "fatal error: concurrent map writes" that no recover() can stop, seen
	// here whether or not the timing of this execution happens to crash.
	probe := raceorc.Enabled && e.Init == nil
	racesBefore := 0
	if probe {
		if err := raceorc.Init(); err != nil {
			die(2, "race oracle: %v", err)
		}
		raceorc.Drain()
		racesBefore = raceorc.Errors()
		c16.SetProbeYield(true)
	}
	go func() {
		defer close(done)
		defer func() {
			if v := recover(); v != nil {
				engineCrash = fmt.Sprintf("%v\n%s", v, debug.Stack())
			}
		}()
		guardedBody(func() { e.Run(run) })
	}()
	start := time.Now()
	lastBlocked, sameProbes := "", 0
	timer := time.NewTimer(hangProbe)
	defer timer.Stop()
	for {
		select {
		case <-done:
			if engineCrash != nil {
				panic(engineCrash) // a defect of the harness itself: never a verdict about dst
			}
			if probe {
				if n := raceorc.Errors() - racesBefore; n > 0 {
					run.Add("in-call-race-reports", int64(n))
					for _, r := range raceorc.Parse(raceorc.Drain()) {
						if !strings.Contains(r.Sig, "outside-dst") && !strings.Contains(r.Sig, "unknown") {
							run.Fail(strings.ToLower(e.Prop)+"/race-inside-call", r.Sig, "a single call into dst, made from one goroutine, raced with itself: dst runs goroutines of its own that share state without synchronisation (unsynchronised map access ends the process with a fatal error that cannot be recovered):\n%s", r.Text)
							break
						}
					}
				}
				run.Count("in-call-race-probe-runs")
			}
			run.Finish()
			return run
		case <-timer.C:
			fn, stack, ok := hungInDst()
			// A goroutine can sit in a wait state for a moment (a contended runtime semaphore during
			// GC, a FileSet lock): only a goroutine found blocked with the very same stack in three
			// consecutive probes, five seconds apart, is considered blocked for good.
			body := stack
			if i := strings.Index(body, "\n"); i >= 0 {
				body = body[i:] // drop the header: its "N minutes" changes
			}
			if ok && body == lastBlocked {
				sameProbes++
			} else {
				sameProbes = 0
			}
			lastBlocked = ""
			if ok {
				lastBlocked = body
			}
			if ok && sameProbes >= 2 {
				// the blocked goroutine is abandoned; its Run value is not read again
				hr := core.NewRun(e.Prop, t, tier)
				hr.Describe("the run never returned: its goroutine is blocked forever inside dst (nothing else runs that could wake it)")
				hr.Fail(strings.ToLower(e.Prop)+"/hang", fn, "an operation blocked forever inside dst:\n%s", stack)
				return hr
			}
			if e.Watchdog > 0 && time.Since(start) > e.Watchdog {
				fmt.Fprintf(raceorc.Stderr(), "WATCHDOG property=%s seed=%d run exceeded %v\n", e.Prop, t.Seed, e.Watchdog)
				os.Exit(2)
			}
			timer.Reset(5 * time.Second)
		}
	}
}

func writeJSON(path string, v interface{}) {
	b, err := json.MarshalIndent(v, "", " ")
	if err != nil {
		die(2, "json: %v", err)
	}
	if err := ioutil.WriteFile(path, b, 0644); err != nil {
		die(2, "write %s: %v", path, err)
	}
}

func h64(s string) uint64 {
	h := fnv.New64a()
	h.Write([]byte(s))
	return h.Sum64()
}

func cmdBatch(args []string) {
	fs := flag.NewFlagSet("batch", flag.ExitOnError)
	prop := fs.String("prop", "", "property id")
	seed := fs.Uint64("seed", 1, "batch seed")
	runs := fs.Int("runs", 100, "number of runs")
	tier := fs.String("tier", "quick", "tier")
	out := fs.String("out", ".", "output dir")
	id := fs.Int("id", 0, "batch id")
	first := fs.Int("first", 0, "index of the first run (runs use seeds Mix(seed, first..first+runs-1))")
	limit := fs.Duration("limit", 0, "stop starting new runs after this wall time")
	maxViol := fs.Int("maxviol", 3, "stop after this many violations")
	knownList := fs.String("known", "", "signatures of listed known findings, separated by ';;': recorded once each, never a reason to stop or to exit 1")
	fs.Parse(args)
	known := map[string]bool{}
	for _, k := range strings.Split(*knownList, ";;") {
		if k != "" {
			known[k] = true
		}
	}
	knownSeen := map[string]bool{}
	e := engines[*prop]
	if e == nil {
		die(2, "unknown property %q (not built into %s)", *prop, binaryName())
	}
	raceorc.CapturePath = filepath.Join(*out, fmt.Sprintf("fd2-%d.txt", *id))
	if e.Init != nil {
		if err := e.Init(); err != nil {
			die(2, "engine init: %v", err)
		}
	}
	start := time.Now()
	st := &BatchStats{Property: *prop, Tier: *tier, Seed: *seed, ID: *id, Counters: map[string]int64{}}
	distinct := map[uint64]bool{}
	evf, err := os.Create(filepath.Join(*out, fmt.Sprintf("events-%d.txt", *id)))
	if err != nil {
		die(2, "%v", err)
	}
	cur := filepath.Join(*out, fmt.Sprintf("current-%d.txt", *id))
	for i := *first; i < *first+*runs; i++ {
		if *limit > 0 && time.Since(start) > *limit {
			st.Stopped = "time limit"
			break
		}
		s := tape.Mix(*seed, uint64(i))
		ioutil.WriteFile(cur, []byte(fmt.Sprintf("%d %d\n", i, s)), 0644)
		t := tape.New(s)
		run := runOne(e, t, *tier)
		st.Runs++
		st.Steps += run.Steps
		st.TapeLens += int64(t.Pos())
		for k, v := range run.Counters {
			st.Counters[k] += v
		}
		for k := range run.Distinct {
			distinct[h64(k)] = true
		}
		fmt.Fprintf(evf, "%d %s %d\n", s, run.EventHash(), len(run.Events))
		if d := os.Getenv("DSTSIM_EVENTS_DIR"); d != "" {
			ioutil.WriteFile(filepath.Join(d, fmt.Sprintf("ev-%d.txt", s)), []byte(strings.Join(run.Events, "\n")+"\n"), 0644)
		}
		if len(st.Samples) < 2 && len(run.Desc) > 0 {
			st.Samples = append(st.Samples, run.Desc)
		}
		if run.Viol != nil && known[strings.Replace(run.Viol.Sig, " ", "_", -1)] {
			k := strings.Replace(run.Viol.Sig, " ", "_", -1)
			st.Counters["known-finding-hits"]++
			if !knownSeen[k] {
				knownSeen[k] = true
				rf := &ReplayFile{Property: *prop, Seed: s, Tier: *tier, Tape: t.Used(), Violation: run.Viol,
					Description: run.Desc, Events: tail(run.Events, 200), Binary: binaryName(),
					Context: &BatchContext{BatchSeed: *seed, First: *first, Index: i}}
				p := filepath.Join(*out, fmt.Sprintf("known-%d-%d.json", *id, i))
				writeJSON(p, rf)
				st.Known = append(st.Known, p)
			}
		} else if run.Viol != nil {
			rf := &ReplayFile{Property: *prop, Seed: s, Tier: *tier, Tape: t.Used(), Violation: run.Viol,
				Description: run.Desc, Events: tail(run.Events, 200), Binary: binaryName(),
				Context: &BatchContext{BatchSeed: *seed, First: *first, Index: i}}
			p := filepath.Join(*out, fmt.Sprintf("viol-%d-%d.json", *id, i))
			rf.ReplayCmd = fmt.Sprintf("./check replay %s", p)
			writeJSON(p, rf)
			st.Violations = append(st.Violations, p)
			if len(st.Violations) >= *maxViol || isolated(e) {
				st.Stopped = "violations"
				break
			}
		}
	}
	evf.Close()
	os.Remove(cur)
	st.Distinct = len(distinct)
	if e.Info != nil {
		st.Info = e.Info()
	}
	// distinct hashes, binary
	df, err := os.Create(filepath.Join(*out, fmt.Sprintf("distinct-%d.bin", *id)))
	if err == nil {
		buf := make([]byte, 8)
		for k := range distinct {
			binary.LittleEndian.PutUint64(buf, k)
			df.Write(buf)
		}
		df.Close()
	}
	st.WallS = time.Since(start).Seconds()
	writeJSON(filepath.Join(*out, fmt.Sprintf("batch-%d.json", *id)), st)
	if len(st.Violations) > 0 {
		os.Exit(1)
	}
}

func tail(s []string, n int) []string {
	if len(s) > n {
		return s[len(s)-n:]
	}
	return s
}

func loadReplay(path string) *ReplayFile {
	b, err := ioutil.ReadFile(path)
	if err != nil {
		die(2, "read %s: %v", path, err)
	}
	rf := &ReplayFile{}
	if err := json.Unmarshal(b, rf); err != nil {
		die(2, "parse %s: %v", path, err)
	}
	return rf
}

// cmdReplay re-executes a replay file. With -json it prints the outcome as JSON (used by shrink).
func cmdReplay(args []string) {
	fs := flag.NewFlagSet("replay", flag.ExitOnError)
	asJSON := fs.Bool("json", false, "print outcome as json")
	verbose := fs.Bool("v", false, "print description and events")
	withContext := fs.Bool("context", false, "first re-execute the runs that preceded this one in its batch process")
	fs.Parse(args)
	if fs.NArg() != 1 {
		die(2, "usage: replay FILE")
	}
	rf := loadReplay(fs.Arg(0))
	e := engines[rf.Property]
	if e == nil {
		die(2, "property %q is not built into %s", rf.Property, binaryName())
	}
	if e.Init != nil {
		if err := e.Init(); err != nil {
			die(2, "engine init: %v", err)
		}
	}
	if *withContext && rf.Context != nil {
		for i := rf.Context.First; i < rf.Context.Index; i++ {
			runOne(e, tape.New(tape.Mix(rf.Context.BatchSeed, uint64(i))), rf.Tier)
		}
		fmt.Printf("REPLAY-CONTEXT re-executed runs %d..%d of batch seed %d first\n", rf.Context.First, rf.Context.Index-1, rf.Context.BatchSeed)
	}
	t := tape.Replay(rf.Seed, rf.Tape)
	if rf.Tape == nil {
		t = tape.New(rf.Seed) // seed-only replay
	}
	run := runOne(e, t, rf.Tier)
	if p := os.Getenv("DSTSIM_EVENTS"); p != "" {
		ioutil.WriteFile(p, []byte(strings.Join(run.Events, "\n")+"\n"), 0644) // full event log, for determinism debugging
	}
	if *asJSON {
		out := map[string]interface{}{"used": t.Used(), "violation": run.Viol, "description": run.Desc, "events": tail(run.Events, 200)}
		b, _ := json.Marshal(out)
		fmt.Println(string(b))
		return
	}
	fmt.Printf("REPLAY property=%s seed=%d tape=%d entries events=%s\n", rf.Property, rf.Seed, len(rf.Tape), run.EventHash())
	if *verbose {
		for _, d := range run.Desc {
			fmt.Println("  | " + strings.Replace(d, "\n", "\n  | ", -1))
		}
	}
	if run.Viol == nil {
		fmt.Println("REPLAY-RESULT no violation")
		if rf.Violation != nil {
			os.Exit(0)
		}
		return
	}
	fmt.Printf("REPLAY-RESULT class=%s sig=%s\n%s\n", run.Viol.Class, run.Viol.Sig, run.Viol.Detail)
	if rf.Violation != nil && rf.Violation.Sig != run.Viol.Sig {
		fmt.Printf("REPLAY-MISMATCH recorded sig=%s\n", rf.Violation.Sig)
		os.Exit(3)
	}
	os.Exit(1)
}

// tester evaluates a candidate tape and returns the violation signature ("" if none) and the
// normalised tape actually used.
type tester func(vals []uint32) (sig string, used []uint32, viol *core.Violation, desc, events []string)

func inProcessTester(e *Engine, rf *ReplayFile) tester {
	return func(vals []uint32) (string, []uint32, *core.Violation, []string, []string) {
		t := tape.Replay(rf.Seed, vals)
		var run *core.Run
		pi := core.Catch(func() { run = runOne(e, t, rf.Tier) })
		if pi != nil {
			// an engine must never panic itself; treat as "not the same violation"
			return "", nil, nil, nil, nil
		}
		if run.Viol == nil {
			return "", t.Used(), nil, nil, nil
		}
		return run.Viol.Sig, t.Used(), run.Viol, run.Desc, tail(run.Events, 200)
	}
}

func processTester(rf *ReplayFile, dir string) tester {
	var ctr int64
	return func(vals []uint32) (string, []uint32, *core.Violation, []string, []string) {
		n := atomic.AddInt64(&ctr, 1)
		c := *rf
		c.Tape = vals
		c.Violation = nil
		p := filepath.Join(dir, fmt.Sprintf("cand-%d.json", n))
		writeJSON(p, &c)
		defer os.Remove(p)
		cmd := exec.Command(os.Args[0], "replay", "-json", p)
		cmd.Env = os.Environ()
		outb, err := cmd.Output()
		if err != nil && len(outb) == 0 {
			// crashed hard: the crash text is the violation (runtime fatal)
			return "", nil, nil, nil, nil
		}
		var res struct {
			Used        []uint32        `json:"used"`
			Violation   *core.Violation `json:"violation"`
			Description []string        `json:"description"`
			Events      []string        `json:"events"`
		}
		lines := strings.Split(strings.TrimSpace(string(outb)), "\n")
		if err := json.Unmarshal([]byte(lines[len(lines)-1]), &res); err != nil {
			return "", nil, nil, nil, nil
		}
		if res.Violation == nil {
			return "", res.Used, nil, nil, nil
		}
		return res.Violation.Sig, res.Used, res.Violation, res.Description, res.Events
	}
}

func cmdShrink(args []string) {
	fs := flag.NewFlagSet("shrink", flag.ExitOnError)
	out := fs.String("out", "", "output file")
	budget := fs.Duration("budget", 60*time.Second, "time budget")
	proc := fs.Bool("proc", false, "evaluate candidates in fresh processes")
	fs.Parse(args)
	if fs.NArg() != 1 || *out == "" {
		die(2, "usage: shrink FILE -out FILE2")
	}
	rf := loadReplay(fs.Arg(0))
	e := engines[rf.Property]
	if e == nil {
		die(2, "property %q is not built into %s", rf.Property, binaryName())
	}
	if e.Init != nil && !(*proc || isolated(e)) {
		if err := e.Init(); err != nil {
			die(2, "engine init: %v", err)
		}
	}
	var test tester
	if *proc || isolated(e) {
		dir, err := ioutil.TempDir("", "dstsim-shrink")
		if err != nil {
			die(2, "%v", err)
		}
		defer os.RemoveAll(dir)
		test = processTester(rf, dir)
	} else {
		test = inProcessTester(e, rf)
	}
	want := rf.Violation.Sig
	deadline := time.Now().Add(*budget)
	tried := 0
	best := append([]uint32(nil), rf.Tape...)
	var bestViol = rf.Violation
	bestDesc, bestEvents := rf.Description, rf.Events
	par := 1
	if *proc || isolated(e) {
		par = runtime.NumCPU() // candidates are OS processes: probe many at once
	}
	type outcome struct {
		sig          string
		used         []uint32
		v            *core.Violation
		desc, events []string
	}
	better := func(used []uint32) bool {
		if len(used) > len(best) {
			return false
		}
		return len(used) < len(best) || lexLess(used, best)
	}
	// tryMany evaluates the candidates (concurrently when they are processes) and adopts the first
	// one, in order, that shows the same violation and is smaller; it returns its index or -1.
	tryMany := func(cands [][]uint32) int {
		if time.Now().After(deadline) || len(cands) == 0 {
			return -1
		}
		res := make([]outcome, len(cands))
		var wg sync.WaitGroup
		sem := make(chan struct{}, par)
		for i := range cands {
			wg.Add(1)
			sem <- struct{}{}
			go func(i int) {
				defer wg.Done()
				defer func() { <-sem }()
				sig, used, v, desc, ev := test(append([]uint32(nil), cands[i]...))
				res[i] = outcome{sig, used, v, desc, ev}
			}(i)
			if par == 1 {
				wg.Wait()
				tried++
				if res[i].sig == want && better(res[i].used) {
					best, bestViol, bestDesc, bestEvents = res[i].used, res[i].v, res[i].desc, res[i].events
					return i
				}
			}
		}
		wg.Wait()
		if par == 1 {
			return -1
		}
		tried += len(cands)
		for i := range res {
			if res[i].sig == want && better(res[i].used) {
				best, bestViol, bestDesc, bestEvents = res[i].used, res[i].v, res[i].desc, res[i].events
				return i
			}
		}
		return -1
	}
	try := func(c []uint32) bool { return tryMany([][]uint32{c}) == 0 }
	// confirm the original reproduces before spending the budget
	confirmed := false
	var gotSig string
	for attempt := 0; attempt < 3 && !confirmed; attempt++ {
		sig, used, v, desc, ev := test(append([]uint32(nil), best...))
		gotSig = sig
		if sig == want {
			best, bestViol, bestDesc, bestEvents = used, v, desc, ev
			confirmed = true
		}
	}
	if !confirmed {
		die(2, "shrink: the recorded violation does not reproduce (got %q, want %q)", gotSig, want)
	}
	orig := len(rf.Tape)
	for progress := true; progress && time.Now().Before(deadline); {
		progress = false
		// pass 1: delete spans
		for size := len(best) / 2; size >= 1; size /= 2 {
			for i := 0; i+size <= len(best) && time.Now().Before(deadline); {
				var cands [][]uint32
				var at []int
				for j := i; j+size <= len(best) && len(cands) < par; j += size {
					cands = append(cands, append(append([]uint32(nil), best[:j]...), best[j+size:]...))
					at = append(at, j)
				}
				if k := tryMany(cands); k >= 0 {
					progress = true
					i = at[k] // the tape shifted left: probe the same position again
				} else {
					i = at[len(at)-1] + size
				}
			}
		}
		// pass 2: zero spans
		for size := len(best) / 2; size >= 1; size /= 2 {
			for i := 0; i+size <= len(best) && time.Now().Before(deadline); {
				var cands [][]uint32
				var at []int
				j := i
				for ; j+size <= len(best) && len(cands) < par; j += size {
					allZero := true
					for _, v := range best[j : j+size] {
						if v != 0 {
							allZero = false
						}
					}
					if allZero {
						continue
					}
					c := append([]uint32(nil), best...)
					for x := j; x < j+size; x++ {
						c[x] = 0
					}
					cands = append(cands, c)
					at = append(at, j)
				}
				if len(cands) == 0 {
					break
				}
				if k := tryMany(cands); k >= 0 {
					progress = true
					i = at[k] + size
					if i > len(best) {
						break
					}
				} else {
					i = j
				}
			}
		}
		// pass 3: lower single values (a binary search per entry; with process candidates only the
		// cheap probes, many entries at once)
		if par > 1 {
			for i := 0; i < len(best) && time.Now().Before(deadline); {
				var cands [][]uint32
				var at []int
				j := i
				for ; j < len(best) && len(cands) < par; j++ {
					if best[j] == 0 {
						continue
					}
					c := append([]uint32(nil), best...)
					c[j] = best[j] / 2
					cands = append(cands, c)
					at = append(at, j)
				}
				if len(cands) == 0 {
					break
				}
				if k := tryMany(cands); k >= 0 {
					progress = true
					i = at[k]
				} else {
					i = j
				}
			}
			continue
		}
		for i := 0; i < len(best); i++ {
			if best[i] == 0 {
				continue
			}
			lo, hi := uint32(0), best[i]
			for lo < hi {
				mid := lo + (hi-lo)/2
				if i >= len(best) {
					break
				}
				c := append([]uint32(nil), best...)
				c[i] = mid
				if try(c) {
					progress = true
					if i >= len(best) {
						break
					}
					hi = best[i]
				} else {
					lo = mid + 1
				}
			}
		}
	}
	res := *rf
	res.Tape = best
	res.Violation = bestViol
	res.Description = bestDesc
	res.Events = bestEvents
	res.Minimised = true
	res.OrigTapeLen = orig
	res.ShrinkTried = tried
	res.ReplayCmd = fmt.Sprintf("./check replay %s", *out)
	writeJSON(*out, &res)
	fmt.Printf("SHRUNK tape %d -> %d entries in %d candidates\n", orig, len(best), tried)
}

func lexLess(a, b []uint32) bool {
	for i := range a {
		if i >= len(b) {
			return false
		}
		if a[i] != b[i] {
			return a[i] < b[i]
		}
	}
	return len(a) < len(b)
}

func cmdMerge(args []string) {
	seen := map[uint64]struct{}{}
	buf := make([]byte, 8)
	for _, p := range args {
		b, err := ioutil.ReadFile(p)
		if err != nil {
			continue
		}
		for i := 0; i+8 <= len(b); i += 8 {
			copy(buf, b[i:i+8])
			seen[binary.LittleEndian.Uint64(buf)] = struct{}{}
		}
	}
	fmt.Println(len(seen))
}

func main() {
	if len(os.Args) < 2 {
		die(2, "usage: %s batch|replay|shrink|merge|props ...", binaryName())
	}
	switch os.Args[1] {
	case "batch":
		cmdBatch(os.Args[2:])
	case "replay":
		cmdReplay(os.Args[2:])
	case "shrink":
		cmdShrink(os.Args[2:])
	case "merge":
		cmdMerge(os.Args[2:])
	case "props":
		var ps []string
		for p := range engines {
			ps = append(ps, p)
		}
		sort.Strings(ps)
		fmt.Println(strings.Join(ps, " "))
	default:
		die(2, "unknown command %q", os.Args[1])
	}
}
