//go:build verif

package c20

import (
	"fmt"
	"go/format"
	"go/parser"
	"go/token"
	"io/ioutil"
	"os"
	"path/filepath"

	"github.com/dave/dst"
	"github.com/dave/dst/decorator"
	"github.com/dave/dst/decorator/resolver/goast"
	"github.com/dave/dst/decorator/resolver/guess"
	"golang.org/x/tools/go/packages"

	"verifsim/core"
	"verifsim/edits"
)

// runDefaultSave drives the exported Package.Save(), i.e. the default resolver (gopackages, which
// runs `go list` in the package directory), on a real scratch module whose files import standard
// packages only, optionally plus one import that cannot be loaded. The Package is hand-built the
// way decorator.Load leaves it, including the Imports map (a stub without a name for the import
// go/packages could not load). Slow (a `go list` per resolved path), so it is a rare run.
func runDefaultSave(run *core.Run) {
	t := run.T
	const missing = "sim.local/pkg/internal/missing"
	std := []struct{ path, use string }{
		{"fmt", "var A%d = fmt.Sprint(1)"},
		{"strings", "func B%d(s string) string { return strings.ToUpper(s) }"},
		{"os", "var C%d = os.Args"},
		{"errors", "var D%d = errors.New(\"d\")"},
	}
	nfiles := 2 + t.Draw(2)
	missAt := -1
	if t.Bool(2, 3) {
		missAt = t.Draw(nfiles)
	}
	editAll := t.Bool(1, 2)
	type df struct{ name, src string }
	var files []df
	for i := 0; i < nfiles; i++ {
		s := std[(i+t.Draw(2))%len(std)]
		src := fmt.Sprintf("package pkg\n\nimport (\n\t%q\n", s.path)
		body := fmt.Sprintf(s.use, i)
		if i == missAt {
			src += fmt.Sprintf("\t%q\n", missing)
			body += fmt.Sprintf("\n\nvar M%d = missing.Value", i)
		}
		src += ")\n\n" + body + "\n"
		b, err := format.Source([]byte(src))
		if err != nil {
			panic("harness: " + err.Error())
		}
		files = append(files, df{fmt.Sprintf("f%d.go", i), string(b)})
	}
	run.Describe("default Save(): %d files in a real module, unloadable import in file %d, edit all=%v", nfiles, missAt, editAll)
	for _, f := range files {
		run.Describe("%s:\n%s", f.name, f.src)
	}
	dir, err := ioutil.TempDir("", "dstsim-c20-save-")
	if err != nil {
		panic("harness: " + err.Error())
	}
	defer os.RemoveAll(dir)
	ioutil.WriteFile(filepath.Join(dir, "go.mod"), []byte("module sim.local/pkg\n\ngo 1.18\n"), 0644)
	for _, f := range files {
		ioutil.WriteFile(filepath.Join(dir, f.name), []byte(f.src), 0644)
	}
	names := map[string]string{"fmt": "fmt", "strings": "strings", "os": "os", "errors": "errors", missing: "missing"}
	build := func() *decorator.Package {
		fset := token.NewFileSet()
		dec := decorator.NewDecoratorWithImports(fset, LocalPath, goast.WithResolver(guess.WithMap(names)))
		p := &decorator.Package{
			Package:   &packages.Package{PkgPath: LocalPath, Fset: fset},
			Dir:       dir,
			Decorator: dec,
			Imports:   map[string]*decorator.Package{},
		}
		for _, f := range files {
			d, err := dec.ParseFile(filepath.Join(dir, f.name), []byte(f.src), parser.ParseComments)
			if err != nil {
				panic("harness: " + err.Error())
			}
			p.Syntax = append(p.Syntax, d)
		}
		for path, n := range names {
			stub := &decorator.Package{Package: &packages.Package{PkgPath: path, Name: n}}
			if path == missing {
				stub.Package.Name = "" // what go/packages reports for an import it could not load
			}
			p.Imports[path] = stub
		}
		return p
	}
	subj, twin := build(), build()
	if editAll {
		for i := range subj.Syntax {
			e := []edits.Edit{{Kind: edits.AddComment, N: 1, Name: "x"}}
			edits.Apply(subj.Syntax[i], e)
			edits.Apply(twin.Syntax[i], e)
		}
	}
	// is the go command usable for the default resolver at all? (asked about a path no file uses)
	probe := &decorator.Package{Package: &packages.Package{PkgPath: LocalPath}, Dir: dir, Decorator: decorator.NewDecorator(nil)}
	_ = probe
	var serr error
	if pi := core.Catch(func() { serr = subj.Save() }); pi != nil {
		run.Fail("c20/save/panic", "default|"+pi.Sig(), "Package.Save() panicked: %s\n%s", pi.Value, pi.Stack)
		return
	}
	run.Count("evaluations")
	run.Count("default-save-runs")
	run.Event("default save missAt=%d err=%v", missAt, serr != nil)
	run.Case(fmt.Sprintf("defaultsave:%x", run.T.Seed))
	read := func(name string) string {
		b, _ := ioutil.ReadFile(filepath.Join(dir, name))
		return string(b)
	}
	print := func(f *dst.File) string {
		b, err := twinPrint(f, guess.WithMap(names))
		if err != nil {
			panic("harness: twin print failed: " + err.Error())
		}
		return string(b)
	}
	if missAt < 0 {
		if serr != nil {
			// `go list` is not usable in this environment: says nothing about dst
			run.Count("default-save-unavailable")
			return
		}
		run.Count("fault-fired/none(save-without-fault)")
		for i, f := range files {
			if got, want := read(f.name), print(twin.Syntax[i]); got != want {
				run.Fail("c20/write/content", "default", "Save(): %s differs from the import-managed print of its file:\n--- disk\n%s\n--- expected\n%s", f.name, got, want)
				return
			}
		}
		return
	}
	// the unloadable import is a natural resolver failure at file missAt
	run.Count("fault-fired/natural-unloadable-import(default Save)")
	if serr == nil {
		run.Fail("c20/fault/no-error", "default", "Save(): the default resolver cannot name %s (used by %s) but Save returned nil", missing, files[missAt].name)
		return
	}
	for i, f := range files {
		got := read(f.name)
		if i < missAt {
			if want := print(twin.Syntax[i]); got != want {
				// go list unusable for the standard packages too: nothing can be concluded
				if got == f.src {
					run.Count("default-save-unavailable")
					return
				}
				run.Fail("c20/write/content", "default", "Save(): %s differs from the import-managed print of its file", f.name)
				return
			}
		} else if got != f.src {
			run.Fail("c20/fault/later-file-written", "default", "Save(): the resolver failed at %s, yet %s was rewritten", files[missAt].name, f.name)
			return
		}
	}
	ents, _ := ioutil.ReadDir(dir)
	if len(ents) != nfiles+1 {
		run.Fail("c20/write/foreign-path", "default", "Save() changed the set of files in the directory")
	}
}
