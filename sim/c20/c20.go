//go:build verif

// Package c20 decides C20: saving a decorated package writes exactly one file per decorated source
// file, to the path it was loaded from and nowhere else, with the import-managed print of that
// file; unedited canonical sources are byte-identical on disk; a resolver failure is returned and
// no later file is written.
//
// The system under simulation is a hand-built decorator.Package over 1-6 files in 1-3 simulated
// directories, a simulated disk behind Package.save's writeFile seam, and fault-injecting
// resolvers. A run is a history [edits] Save [edits] Save ... with a tape-chosen fault per Save,
// checked after every Save against an independently constructed twin package and a disk model.
package c20

import (
	"bytes"
	"errors"
	"fmt"
	"go/format"
	"go/parser"
	"go/token"
	"io/ioutil"
	"os"
	"path/filepath"
	"sort"
	"strings"

	"github.com/dave/dst"
	"github.com/dave/dst/decorator"
	"github.com/dave/dst/decorator/resolver"
	"github.com/dave/dst/decorator/resolver/goast"
	"github.com/dave/dst/decorator/resolver/guess"
	"golang.org/x/tools/go/packages"

	"verifsim/core"
	"verifsim/dump"
	"verifsim/edits"
	"verifsim/faults"
	"verifsim/gen"
)

const LocalPath = "sim.local/pkg"

type fileSpec struct {
	path string
	src  string
}

const (
	fNone = iota
	fResolverPath
	fResolverKth
	fNaturalMissing
	fDiskError
	fDiskTorn
	numFaultKinds
)

var faultNames = [...]string{"none", "resolver-path", "resolver-kth", "natural-missing", "disk-error", "disk-torn"}

type saveStep struct {
	move   [3]int               // move[0]==1: before this save, move the move[2]-th non-import declaration of file move[1] to the next file
	edits  map[int][]edits.Edit // file index (parse order) -> script applied before this save
	fault  int
	atFile int // position in Syntax order the fault aims at
	tornAt int
}

type workload struct {
	plainGoast bool // decorated with goast.New(): package names are GUESSED from the import paths (every import of the workload is guessable)
	hasDot     bool // a file has a dot-import: goast refuses to decorate it, so there is nothing to save
	files      []fileSpec
	order      []int // Syntax order: positions -> parse index
	resKind    int
	saves      []saveStep
	bystanders map[string][]byte
	realDir    bool
	dir        string
}

var dirs = []string{"/sim/pkg", "/sim/pkg/sub", "/sim/other", "rel/dir", "/sim/pkg copy"}
var bases = []string{"a.go", "b.go", "x.go", "main.go", "a_test.go", "doc.go", "z.go"}

func truth() map[string]string {
	m := gen.Truth()
	for i := 0; i < 8; i++ {
		m[onlyPath(i)] = fmt.Sprintf("only%d", i)
	}
	return m
}

// onlyPath is a package path that only file i uses, so a path-keyed resolver failure hits exactly
// that file.
func onlyPath(i int) string { return fmt.Sprintf("only.test/f%d/only%d", i, i) }

func draw(run *core.Run) *workload {
	t := run.T
	w := &workload{bystanders: map[string][]byte{}}
	nfiles := 1 + t.Draw(6)
	ndirs := 1 + t.Draw(3)
	used := map[string]bool{}
	pkgName := []string{"pkg", "main", "lib"}[t.Draw(3)]
	w.plainGoast = t.Bool(1, 4)
	allowDot := t.Bool(1, 24)
	for i := 0; i < nfiles; i++ {
		var p string
		for tries := 0; ; tries++ {
			d := dirs[t.Draw(ndirs+2)%len(dirs)]
			b := bases[t.Draw(len(bases))]
			if tries > 20 {
				b = fmt.Sprintf("f%d.go", i)
			}
			p = d + "/" + b
			if !used[p] {
				break
			}
		}
		used[p] = true
		opt := gen.Options{MaxImports: 5, MaxDecls: 4, AllowCgo: true, Conflicts: t.Bool(1, 3), UseAll: true, NoVendor: true, PkgName: pkgName, NoGuessTrap: w.plainGoast, AllowDot: allowDot}
		sp := gen.Source(t, opt)
		if sp.Dot {
			w.hasDot = true
		}
		src := sp.Src
		if t.Bool(1, 5) {
			// generated code (goyacc, protoc, ...) carries //line directives: positions then report
			// another file name, but the file was still loaded from p
			ln := []string{"expr.y", "/sim/pkg/gen.y", "a.go", "../x.go", "/sim/pkg/b.go"}[t.Draw(5)]
			src = fmt.Sprintf("//line %s:%d\n", ln, 1+t.Draw(50)) + src
			if t.Bool(1, 2) {
				src = strings.Replace(src, "\nfunc ", fmt.Sprintf("\n//line %s:%d\nfunc ", ln, 100+t.Draw(50)), 1)
			}
		}
		if canon, err := format.Source([]byte(src)); err == nil {
			src = string(canon) // the directive placement must be gofmt-canonical too
		} else {
			panic("harness: source with line directives does not format: " + err.Error())
		}
		w.files = append(w.files, fileSpec{path: p, src: src})
	}
	// Syntax order: a tape-chosen permutation
	w.order = make([]int, nfiles)
	for i := range w.order {
		w.order[i] = i
	}
	for i := nfiles - 1; i > 0; i-- {
		j := t.Draw(i + 1)
		w.order[i], w.order[j] = w.order[j], w.order[i]
	}
	w.resKind = []int{faults.KindGuessMap, faults.KindSimple, faults.KindGobuild, faults.KindHints}[t.Draw(4)]
	// bystanders: same base names elsewhere, backup files, a file named like the package dir
	nb := t.Draw(4)
	for i := 0; i < nb; i++ {
		f := w.files[t.Draw(nfiles)]
		var p string
		switch t.Draw(4) {
		case 0:
			p = f.path + ".bak"
		case 1:
			p = "/elsewhere/" + filepath.Base(f.path)
		case 2:
			p = filepath.Base(f.path)
		default:
			p = filepath.Dir(f.path) + "/untouched.go"
		}
		if !used[p] {
			w.bystanders[p] = []byte("bystander " + p)
		}
	}
	nsaves := 1 + t.Draw(3)
	for s := 0; s < nsaves; s++ {
		st := saveStep{edits: map[int][]edits.Edit{}}
		if t.Bool(1, 2) {
			ne := 1 + t.Draw(2)
			for k := 0; k < ne; k++ {
				fi := t.Draw(nfiles)
				st.edits[fi] = append(st.edits[fi], edits.Script(t, 2, false)...)
			}
		}
		if nfiles > 1 && t.Bool(1, 4) {
			st.move = [3]int{1, t.Draw(nfiles), t.Draw(6)}
		}
		if t.Bool(2, 3) {
			st.fault = 1 + t.Draw(numFaultKinds-1)
		}
		st.atFile = t.Draw(nfiles)
		st.tornAt = t.Draw(1001)
		w.saves = append(w.saves, st)
	}
	// the history always ends with a fault-free save (obligation f)
	w.saves = append(w.saves, saveStep{edits: map[int][]edits.Edit{}})
	w.realDir = t.Bool(1, 8)

	run.Describe("package %q: %d files, Syntax order %v, save resolver %s, realDir=%v", pkgName, nfiles, w.order, faults.KindName(w.resKind), w.realDir)
	for i, f := range w.files {
		run.Describe("file[%d] %s (%d bytes)", i, f.path, len(f.src))
	}
	var bs []string
	for p := range w.bystanders {
		bs = append(bs, p)
	}
	sort.Strings(bs)
	run.Describe("bystanders %v", bs)
	for i, s := range w.saves {
		var es []string
		for fi := 0; fi < nfiles; fi++ {
			for _, e := range s.edits[fi] {
				es = append(es, fmt.Sprintf("file[%d]:%s", fi, e))
			}
		}
		run.Describe("save#%d fault=%s at Syntax[%d] edits=%v move=%v", i, faultNames[s.fault], s.atFile, es, s.move)
	}
	return w
}

type pkgState struct {
	pkg    *decorator.Package
	files  []*dst.File // parse order
	edited []bool      // parse order
}

func build(w *workload, pathOf func(i int) string, sharedResolver ...*goast.DecoratorResolver) (*pkgState, error) {
	fset := token.NewFileSet()
	res := goast.WithResolver(guess.WithMap(truth()))
	if w.plainGoast {
		res = goast.New() // the default: names guessed from the paths
	}
	if len(sharedResolver) > 0 && sharedResolver[0] != nil {
		res = sharedResolver[0] // one identifier resolver used for several packages
	}
	dec := decorator.NewDecoratorWithImports(fset, LocalPath, res)
	st := &pkgState{edited: make([]bool, len(w.files))}
	for i, f := range w.files {
		df, err := dec.ParseFile(pathOf(i), []byte(f.src), parser.ParseComments)
		if err != nil {
			return nil, fmt.Errorf("file %d: %v", i, err)
		}
		st.files = append(st.files, df)
	}
	st.pkg = &decorator.Package{
		Package:   &packages.Package{PkgPath: LocalPath, Fset: fset},
		Dir:       filepath.Dir(pathOf(0)),
		Decorator: dec,
	}
	for _, i := range w.order {
		st.pkg.Syntax = append(st.pkg.Syntax, st.files[i])
	}
	return st, nil
}

// applyEdits applies a save step's edits; the "only" use for a path-keyed fault is an edit too.
func applyEdits(ps *pkgState, w *workload, s saveStep) {
	if s.move[0] == 1 {
		// refactoring: a declaration moves to another file of the package; the identifiers keep
		// their Path, so import management must add the imports there and drop them here
		from := ps.files[s.move[1]]
		to := ps.files[(s.move[1]+1)%len(ps.files)]
		var idx []int
		for i, d := range from.Decls {
			if gd, ok := d.(*dst.GenDecl); ok && gd.Tok == token.IMPORT {
				continue
			}
			// the declaration that uses the package "only this file uses" stays where it is: the
			// path-keyed resolver fault is aimed at this file through it
			pinned := false
			dst.Inspect(d, func(n dst.Node) bool {
				if id, ok := n.(*dst.Ident); ok && strings.HasPrefix(id.Path, "only.test/") {
					pinned = true
				}
				return true
			})
			if pinned {
				continue
			}
			idx = append(idx, i)
		}
		if len(idx) > 1 {
			i := idx[s.move[2]%len(idx)]
			d := from.Decls[i]
			from.Decls = append(from.Decls[:i:i], from.Decls[i+1:]...)
			to.Decls = append(to.Decls, d)
			ps.edited[s.move[1]] = true
			ps.edited[(s.move[1]+1)%len(ps.files)] = true
		}
	}
	for fi := 0; fi < len(w.files); fi++ {
		if len(s.edits[fi]) > 0 {
			edits.Apply(ps.files[fi], s.edits[fi])
			ps.edited[fi] = true
		}
	}
	if s.fault == fResolverPath || s.fault == fNaturalMissing {
		fi := w.order[s.atFile]
		edits.Apply(ps.files[fi], []edits.Edit{{Kind: edits.AddUse, Path: onlyPath(fi), Name: "Only"}})
		ps.edited[fi] = true
	}
}

// treeHashes fingerprints the subject's files (Syntax order) so that a save's effect on them can
// be seen.
func treeHashes(ps *pkgState) []string {
	out := make([]string, len(ps.pkg.Syntax))
	for i, f := range ps.pkg.Syntax {
		out[i] = dump.Hash(f, dump.Options{})
	}
	return out
}

// twinPrint is the reference "import-managed print of that file": a fresh restorer per file.
func twinPrint(f *dst.File, res resolver.RestorerResolver) ([]byte, error) {
	var buf bytes.Buffer
	r := decorator.NewRestorerWithImports(LocalPath, res)
	if err := r.Fprint(&buf, f); err != nil {
		return nil, err
	}
	return buf.Bytes(), nil
}

// Run executes one C20 history.
func Run(run *core.Run) {
	if run.T.Bool(1, 250) {
		runDefaultSave(run) // the exported Save() with its default resolver (runs `go list`): slow, rare
		return
	}
	w := draw(run)
	if w.realDir {
		runReal(run, w)
		return
	}
	simPath := func(i int) string { return w.files[i].path }
	// In a third of the runs the package's identifier resolver already served ANOTHER package
	// (its own Decorator and FileSet, other files, other imports) before this one is loaded.
	var shared *goast.DecoratorResolver
	if run.T.Bool(1, 3) {
		shared = goast.WithResolver(guess.WithMap(truth()))
		if w.plainGoast {
			shared = goast.New()
		}
		od := decorator.NewDecoratorWithImports(token.NewFileSet(), "sim.local/other", shared)
		n := 1 + run.T.Draw(2)
		for i := 0; i < n; i++ {
			sp := gen.Source(run.T, gen.Options{MaxImports: 4, MaxDecls: 2, UseAll: true, NoVendor: true, PkgName: "other"})
			if _, err := od.ParseFile(fmt.Sprintf("/sim/other/o%d.go", i), []byte(sp.Src), parser.ParseComments); err != nil {
				panic("harness: the other package does not parse: " + err.Error())
			}
		}
		run.Count("resolver-shared-with-another-package")
	}
	subj, err := build(w, simPath, shared)
	if err != nil && w.hasDot && strings.Contains(err.Error(), "dot-import") {
		// goast cannot tell which identifiers a dot-import provides and refuses the file: a
		// package that cannot be decorated cannot be saved. (Should a change make it decorate such
		// files, saving them unedited owes identical bytes like any other file.)
		run.Count("dot-import-refused-by-goast")
		return
	}
	if err != nil {
		panic("harness: generated package does not parse: " + err.Error())
	}
	twin, err := build(w, simPath)
	if err != nil {
		panic("harness: " + err.Error())
	}
	disk := faults.NewDisk()
	loaded := map[string]int{}
	for i, f := range w.files {
		disk.Put(f.path, []byte(f.src))
		loaded[f.path] = i
	}
	for p, b := range w.bystanders {
		disk.Put(p, b)
	}
	tr := truth()
	var all strings.Builder
	for _, f := range w.files {
		all.WriteString(f.path + "\x00" + f.src + "\x00")
	}
	wkey := fmt.Sprintf("%s:%v:%d", dump.HashString(all.String()), w.order, w.resKind)
	printLog := make([][]int, len(w.saves))

	for si, s := range w.saves {
		if run.Failed() {
			return
		}
		applyEdits(subj, w, s)
		applyEdits(twin, w, s)

		// --- the fault plan for this save; k-th call plans need the twin's call counts per file
		var plan *faults.Plan
		var naturalMissing string
		expectFailAt := -1 // Syntax position whose restore must fail
		switch s.fault {
		case fResolverPath:
			plan = &faults.Plan{Paths: map[string]bool{onlyPath(w.order[s.atFile]): true}}
			expectFailAt = s.atFile
		case fNaturalMissing:
			if w.resKind == faults.KindSimple || w.resKind == faults.KindGobuild {
				naturalMissing = onlyPath(w.order[s.atFile])
				expectFailAt = s.atFile
			}
		}
		diskBefore := disk.Snapshot()
		pre := disk.View()
		journalStart := len(pre.Journal)
		writesBefore := pre.Writes

		// --- twin: expected bytes, computed lazily per Syntax position, printing each twin file once
		twinBytes := map[int][]byte{}
		twinCalls := map[int]int{}
		printTwin := func(pos int) ([]byte, error) {
			if b, ok := twinBytes[pos]; ok {
				return b, nil
			}
			cw := &faults.Pkg{Inner: faults.NameResolver(w.resKind, tr)}
			b, err := twinPrint(twin.pkg.Syntax[pos], cw)
			if err != nil {
				return nil, err
			}
			twinBytes[pos] = b
			twinCalls[pos] = cw.Calls
			printLog[si] = append(printLog[si], pos)
			return b, nil
		}
		if s.fault == fResolverKth {
			// The number of ResolvePackage calls a file makes depends on its history (a print may
			// have written an alias into an import spec, which needs no resolving next time), so
			// the calls are counted on a scratch package taken through exactly the twin's history.
			scratch, err := build(w, simPath)
			if err != nil {
				panic(err)
			}
			for sj := 0; sj < si; sj++ {
				applyEdits(scratch, w, w.saves[sj])
				for _, pos := range printLog[sj] {
					if _, err := twinPrint(scratch.pkg.Syntax[pos], faults.NameResolver(w.resKind, tr)); err != nil {
						run.Fail("c20/save/spurious-error", "print", "the import-managed print of %s fails without any fault: %v", w.files[w.order[pos]].path, err)
						return
					}
				}
			}
			applyEdits(scratch, w, s)
			total := 0
			var per []int
			for pos := range scratch.pkg.Syntax {
				cw := &faults.Pkg{Inner: faults.NameResolver(w.resKind, tr)}
				if _, err := twinPrint(scratch.pkg.Syntax[pos], cw); err != nil {
					run.Fail("c20/save/spurious-error", "print", "the import-managed print of %s fails without any fault: %v", w.files[w.order[pos]].path, err)
					return
				}
				per = append(per, cw.Calls)
				total += cw.Calls
			}
			if total > 0 {
				k := 1 + (s.tornAt % total)
				plan = &faults.Plan{KthCall: k}
				if s.tornAt%3 == 0 {
					plan.Err = faults.NewTemp(fmt.Sprint(k)) // an error that calls itself temporary is still a failure
				}
				acc := 0
				for pos, c := range per {
					acc += c
					if k <= acc {
						expectFailAt = pos
						break
					}
				}
			}
		}
		switch s.fault {
		case fDiskError:
			disk.SetPlan(&faults.DiskPlan{KthWrite: writesBefore + 1 + s.atFile})
		case fDiskTorn:
			disk.SetPlan(&faults.DiskPlan{KthWrite: writesBefore + 1 + s.atFile, Torn: true, TornAt: s.tornAt})
		default:
			disk.SetPlan(nil)
		}

		m := tr
		if naturalMissing != "" {
			m = map[string]string{}
			for k, v := range tr {
				if k != naturalMissing {
					m[k] = v
				}
			}
		}
		rw := &faults.Pkg{Inner: faults.NameResolver(w.resKind, m), Plan: plan}
		var serr error
		subjBefore := treeHashes(subj)
		pi := core.Catch(func() { serr = subj.pkg.VerifSave(rw, disk.WriteFile) })
		// everything below looks at one consistent copy of the disk taken when Save returned
		dv := disk.View()
		journal := dv.Journal[journalStart:]
		run.Event("save#%d fault=%s err=%v writes=%d resolverFired=%d diskFired=%d", si, faultNames[s.fault], serr != nil, len(journal), rw.Fired, dv.Fired)
		run.Count("saves")
		run.Count("evaluations")
		if pi != nil {
			run.Fail("c20/save/panic", pi.Sig(), "Save panicked: %s\n%s", pi.Value, pi.Stack)
			return
		}
		caseKey := fmt.Sprintf("%s:save%d:%s:%d:%d", wkey, si, faultNames[s.fault], expectFailAt, s.atFile)
		resolverFault := expectFailAt >= 0 && (rw.Fired > 0 || naturalMissing != "")
		diskFault := dv.Plan != nil && dv.Fired > 0 && dv.Plan.KthWrite > writesBefore
		if resolverFault {
			run.Count("fault-fired/" + faultNames[s.fault])
		}
		if diskFault {
			run.Count("fault-fired/" + faultNames[s.fault])
			disk.ResetFired()
		}
		if !resolverFault && !diskFault {
			run.Count("fault-fired/none(save-without-fault)")
		}
		run.Case(caseKey)

		// --- (a) journal: loaded paths only, each at most once, in Syntax order
		pos := 0
		seen := map[string]bool{}
		for ji, rec := range journal {
			if _, ok := loaded[rec.Path]; !ok {
				run.Fail("c20/write/foreign-path", "", "save#%d wrote %q, which is not a path any file was loaded from (loaded: %v)", si, rec.Path, pathsOf(w))
				return
			}
			if seen[rec.Path] {
				run.Fail("c20/write/duplicate", "", "save#%d wrote %q twice", si, rec.Path)
				return
			}
			seen[rec.Path] = true
			// find this path at or after pos in Syntax order
			found := -1
			for p := pos; p < len(w.order); p++ {
				if w.files[w.order[p]].path == rec.Path {
					found = p
					break
				}
			}
			if found < 0 {
				run.Fail("c20/write/order", "", "save#%d write %d to %q is out of Syntax order", si, ji, rec.Path)
				return
			}
			if found != pos && !(diskFault) {
				run.Fail("c20/write/skipped-file", "", "save#%d skipped Syntax[%d] (%s) and wrote %q", si, pos, w.files[w.order[pos]].path, rec.Path)
				return
			}
			pos = found + 1
			// --- (b) content equals the twin's import-managed print of that file
			want, err := printTwin(found)
			if err != nil {
				run.Fail("c20/write/twin-cannot-print", "", "save#%d wrote %q but the twin of that file does not print: %v", si, rec.Path, err)
				return
			}
			if !bytes.Equal(rec.Data, want) {
				run.Fail("c20/write/content", "", "save#%d wrote %q with contents that differ from the import-managed print of that file:\n--- written\n%s\n--- expected\n%s", si, rec.Path, rec.Data, want)
				return
			}
			// --- (c) unedited canonical source: identical bytes
			fi := w.order[found]
			if !subj.edited[fi] && !bytes.Equal(rec.Data, []byte(w.files[fi].src)) {
				if reindentedCloserComment(string(rec.Data), w.files[fi].src) {
					run.SoftFail("c20/write/unedited-changed", knownReindent, "save#%d rewrote unedited %q with different bytes (only own-line comments before a closing delimiter moved one level in):\n--- written\n%s\n--- original\n%s", si, rec.Path, rec.Data, w.files[fi].src)
				} else {
					run.Fail("c20/write/unedited-changed", "", "save#%d rewrote unedited %q with different bytes:\n--- written\n%s\n--- original\n%s", si, rec.Path, rec.Data, w.files[fi].src)
					return
				}
			} else if !subj.edited[fi] {
				run.Count("unedited-file-identical")
			}
		}
		// bystanders and every path not written are byte-identical
		for p, b := range diskBefore {
			if seen[p] {
				continue
			}
			if !bytes.Equal(dv.Files[p], b) {
				run.Fail("c20/disk/untouched-changed", "", "save#%d changed %q without a journaled write", si, p)
				return
			}
		}
		if len(dv.Files) != len(diskBefore) {
			run.Fail("c20/write/foreign-path", "created", "save#%d created new files: %v", si, dv.Paths())
			return
		}

		switch {
		case resolverFault:
			// --- (d) error returned, exactly the files before the failing one written
			if serr == nil {
				run.Fail("c20/fault/no-error", "resolver", "save#%d: resolver failed at Syntax[%d] but Save returned nil", si, expectFailAt)
				return
			}
			ok := false
			if plan != nil && plan.Err != nil && errors.Is(serr, plan.Err) {
				ok = true
			}
			if naturalMissing != "" && (errors.Is(serr, resolver.ErrPackageNotFound) || errors.Is(serr, faults.ErrStubNotFound)) {
				ok = true
			}
			if !ok {
				run.Fail("c20/fault/error-not-wrapped", "resolver", "save#%d: Save returned %q, which does not wrap the resolver failure", si, serr)
				return
			}
			// C20 forbids writing the failing file or a later one; it does not demand that the files
			// before it are already on disk (an implementation that prints everything before it
			// writes anything is as good). The journal is an in-order prefix by (a).
			if len(journal) > expectFailAt {
				run.Fail("c20/fault/later-file-written", "", "save#%d: resolver failed at Syntax[%d]; at most the %d files before it may be written, journal has %d: %v", si, expectFailAt, expectFailAt, len(journal), journalPaths(journal))
				return
			}
			if len(journal) < expectFailAt {
				run.Count("resolver-failure-earlier-files-not-written")
			}
			// keep the twin in step: files before the failure were restored
			for p := 0; p < expectFailAt; p++ {
				if _, err := printTwin(p); err != nil {
					run.Fail("c20/save/spurious-error", "print", "the import-managed print of %s fails without any fault: %v", w.files[w.order[p]].path, err)
					return
				}
			}
			run.Count("resolver-failure-stops-save")
		case diskFault:
			// --- (e) the write error comes back
			if serr == nil {
				run.Fail("c20/fault/no-error", "disk", "save#%d: WriteFile failed but Save returned nil", si)
				return
			}
			if !errors.Is(serr, dv.Plan.Err) {
				run.Fail("c20/fault/error-not-wrapped", "disk", "save#%d: Save returned %q, which does not wrap the write error", si, serr)
				return
			}
			// the twin must have restored every file the subject restored: all up to the failing write
			for p := 0; p < len(w.order) && p <= s.atFile; p++ {
				printTwin(p)
			}
			run.Count("disk-failure-returned")
		default:
			if serr != nil {
				run.Fail("c20/save/spurious-error", "", "save#%d without any fault returned %v", si, serr)
				return
			}
			// --- (e) nil ⇒ every Syntax file written completely
			if len(journal) != len(w.order) {
				run.Fail("c20/write/missing-file", "", "save#%d returned nil but wrote %d of %d files: %v", si, len(journal), len(w.order), journalPaths(journal))
				return
			}
			run.Count("complete-saves")
		}
		// Which files a FAILING save prints beyond the one that fails is the implementation's
		// business (stop at the failure, go on after a write error, print everything before writing
		// anything). Printing is idempotent but not without effect on the tree (import management
		// rewrites the file's import declarations, e.g. `_ "fmt"` becomes `"fmt"` once fmt is used,
		// and is dropped, not restored, when the use goes away later). So the twin prints exactly
		// the files whose subject tree this save changed and that it has not printed yet.
		subjAfter := treeHashes(subj)
		for pos := range w.order {
			if _, printed := twinBytes[pos]; !printed && subjAfter[pos] != subjBefore[pos] {
				printTwin(pos)
				run.Count("twin-follows-subject-print")
			}
		}
	}
	final := disk.View()
	// --- (f) after the last (fault-free) save the disk holds the twin's print of every file
	for pos, fi := range w.order {
		want, err := twinPrint(twin.pkg.Syntax[pos], faults.NameResolver(w.resKind, tr))
		if err != nil {
			run.Fail("c20/save/spurious-error", "print", "the import-managed print of %s fails without any fault: %v", w.files[fi].path, err)
			return
		}
		if !bytes.Equal(final.Files[w.files[fi].path], want) {
			run.Fail("c20/disk/final-content", "", "after the history, %q on disk differs from the import-managed print of its file:\n--- disk\n%s\n--- expected\n%s", w.files[fi].path, final.Files[w.files[fi].path], want)
			return
		}
		if !subj.edited[fi] && !bytes.Equal(final.Files[w.files[fi].path], []byte(w.files[fi].src)) {
			if reindentedCloserComment(string(final.Files[w.files[fi].path]), w.files[fi].src) {
				run.SoftFail("c20/write/unedited-changed", knownReindent, "unedited %q differs on disk after the history (own-line comments before a closing delimiter moved one level in)", w.files[fi].path)
			} else {
				run.Fail("c20/disk/unedited-changed", "", "unedited %q differs on disk after the history", w.files[fi].path)
				return
			}
		}
	}
	for p, b := range w.bystanders {
		if !bytes.Equal(final.Files[p], b) {
			run.Fail("c20/disk/untouched-changed", "bystander", "bystander %q changed", p)
			return
		}
	}
	run.Count("histories-complete")
}

// reindentedCloserComment classifies one narrow, known way in which dst fails to reproduce a
// gofmt-canonical file: go/printer leaves an own-line comment that directly precedes a closing ")"
// or "}" at the indentation of the closer when the list before it contains certain multi-line
// items (e.g. a selector as first argument); dst's restorer always pushes such a comment one level
// in. It reports true only if EVERY differing line is such a comment line, identical up to exactly
// one extra leading tab in what dst wrote, and followed (after further comment lines) by a closer.
func reindentedCloserComment(written, original string) bool {
	wl, ol := strings.Split(written, "\n"), strings.Split(original, "\n")
	if len(wl) != len(ol) {
		return false
	}
	diff := 0
	for i := range wl {
		if wl[i] == ol[i] {
			continue
		}
		diff++
		t := strings.TrimLeft(ol[i], "\t")
		if !strings.HasPrefix(t, "//") || wl[i] != "\t"+ol[i] {
			return false
		}
		j := i + 1
		for j < len(ol) && strings.HasPrefix(strings.TrimLeft(ol[j], "\t"), "//") {
			j++
		}
		if j >= len(ol) {
			return false
		}
		c := strings.TrimLeft(ol[j], "\t")
		if !strings.HasPrefix(c, ")") && !strings.HasPrefix(c, "}") {
			return false
		}
		if len(ol[j])-len(c) != len(ol[i])-len(t) {
			return false // the comment was not at the closer's indentation
		}
	}
	return diff > 0
}

const knownReindent = "own-line-comment-before-closer-reindented"

func pathsOf(w *workload) []string {
	var ps []string
	for _, f := range w.files {
		ps = append(ps, f.path)
	}
	return ps
}

func journalPaths(j []faults.WriteRec) []string {
	var ps []string
	for _, r := range j {
		ps = append(ps, r.Path+"("+r.Outcome+")")
	}
	return ps
}

// runReal drives the exported SaveWithResolver against a real scratch directory, so that the
// public path (ioutil.WriteFile, real file names) executes and not only the seam.
func runReal(run *core.Run, w *workload) {
	root, err := ioutil.TempDir("", "dstsim-c20-")
	if err != nil {
		panic("harness: " + err.Error())
	}
	defer os.RemoveAll(root)
	realPath := func(i int) string {
		p := w.files[i].path
		return filepath.Join(root, strings.TrimPrefix(p, "/"))
	}
	for i, f := range w.files {
		os.MkdirAll(filepath.Dir(realPath(i)), 0755)
		if err := ioutil.WriteFile(realPath(i), []byte(f.src), 0644); err != nil {
			panic("harness: " + err.Error())
		}
	}
	for p, b := range w.bystanders {
		rp := filepath.Join(root, strings.TrimPrefix(p, "/"))
		os.MkdirAll(filepath.Dir(rp), 0755)
		ioutil.WriteFile(rp, b, 0644)
	}
	snapshot := func() map[string]string {
		out := map[string]string{}
		filepath.Walk(root, func(p string, info os.FileInfo, err error) error {
			if err == nil && !info.IsDir() {
				b, _ := ioutil.ReadFile(p)
				out[p] = string(b)
			}
			return nil
		})
		return out
	}
	subj, err := build(w, realPath)
	if err != nil && w.hasDot && strings.Contains(err.Error(), "dot-import") {
		run.Count("dot-import-refused-by-goast")
		return
	}
	if err != nil {
		panic("harness: " + err.Error())
	}
	twin, err := build(w, realPath)
	if err != nil {
		panic("harness: " + err.Error())
	}
	tr := truth()
	for si, s := range w.saves {
		if s.fault != fNone && s.fault != fResolverPath {
			s.fault = fNone
		}
		applyEdits(subj, w, s)
		applyEdits(twin, w, s)
		before := snapshot()
		var plan *faults.Plan
		failAt := len(w.order)
		if s.fault == fResolverPath {
			plan = &faults.Plan{Paths: map[string]bool{onlyPath(w.order[s.atFile]): true}}
			failAt = s.atFile
		}
		rw := &faults.Pkg{Inner: faults.NameResolver(w.resKind, tr), Plan: plan}
		var serr error
		subjBefore := treeHashes(subj)
		if pi := core.Catch(func() { serr = subj.pkg.SaveWithResolver(rw) }); pi != nil {
			run.Fail("c20/save/panic", pi.Sig(), "SaveWithResolver panicked: %s", pi.Value)
			return
		}
		run.Event("real save#%d fault=%s err=%v", si, faultNames[s.fault], serr != nil)
		run.Count("real-dir-saves")
		run.Count("evaluations")
		run.Case(fmt.Sprintf("real:%x:%d", run.T.Seed, si))
		if plan != nil {
			run.Count("fault-fired/resolver-path(real-dir)")
			if serr == nil || !errors.Is(serr, plan.Err) {
				run.Fail("c20/fault/error-not-wrapped", "real", "save#%d: resolver failure not returned by SaveWithResolver: %v", si, serr)
				return
			}
		} else {
			run.Count("fault-fired/none(save-without-fault)")
			if serr != nil {
				run.Fail("c20/save/spurious-error", "real", "save#%d failed without a fault: %v", si, serr)
				return
			}
		}
		after := snapshot()
		expect := map[string]string{}
		for p, b := range before {
			expect[p] = b
		}
		for pos := 0; pos < failAt; pos++ {
			fi := w.order[pos]
			b, err := twinPrint(twin.pkg.Syntax[pos], faults.NameResolver(w.resKind, tr))
			if err != nil {
				run.Fail("c20/save/spurious-error", "print:real", "the import-managed print of %s fails without any fault: %v", w.files[fi].path, err)
				return
			}
			expect[realPath(fi)] = string(b)
			if !subj.edited[fi] && string(b) != w.files[fi].src {
				if reindentedCloserComment(string(b), w.files[fi].src) {
					run.SoftFail("c20/write/unedited-changed", knownReindent, "unedited %q is rewritten with different bytes (own-line comments before a closing delimiter moved one level in)", w.files[fi].path)
				} else {
					run.Fail("c20/write/unedited-changed", "real", "unedited %q would be rewritten with different bytes", w.files[fi].path)
					return
				}
			}
		}
		if len(after) != len(expect) {
			run.Fail("c20/write/foreign-path", "real", "save#%d changed the set of files in the directory tree: %d -> %d", si, len(expect), len(after))
			return
		}
		for p, b := range expect {
			got, ok := after[p]
			if !ok {
				run.Fail("c20/write/foreign-path", "real-missing", "save#%d: %q disappeared", si, p)
				return
			}
			if got != b && plan != nil && got == before[p] {
				// a file before the failing one that was not written at all: allowed (see (d))
				run.Count("resolver-failure-earlier-files-not-written")
				continue
			}
			if got != b {
				rel := strings.TrimPrefix(p, root)
				cls := "c20/write/content"
				if _, isBy := w.bystanders[rel]; isBy {
					cls = "c20/disk/untouched-changed"
				}
				run.Fail(cls, "real", "save#%d: %q on disk differs from expectation:\n--- disk\n%s\n--- expected\n%s", si, rel, got, b)
				return
			}
		}
		// the twin prints the files a failing save printed beyond the failing one (see Run)
		subjAfter := treeHashes(subj)
		for pos := failAt; pos < len(w.order); pos++ {
			if subjAfter[pos] != subjBefore[pos] {
				twinPrint(twin.pkg.Syntax[pos], faults.NameResolver(w.resKind, tr))
				run.Count("twin-follows-subject-print")
			}
		}
	}
	run.Count("histories-complete")
}
