// Package faults holds the fault-injecting seams: resolver wrappers, the simulated disk and the
// faulty streams. All of them wrap dst's public interfaces; the code underneath is dst's own.
package faults

import (
	"errors"
	"fmt"
	"go/ast"
	"go/build"
	"sort"
	"sync"

	"github.com/dave/dst/decorator/resolver"
	"github.com/dave/dst/decorator/resolver/gobuild"
	"github.com/dave/dst/decorator/resolver/gopackages"
	"github.com/dave/dst/decorator/resolver/guess"
	"github.com/dave/dst/decorator/resolver/simple"
)

// Sentinel is the injected error; oracles look for it with errors.Is.
type Sentinel struct{ Tag string }

func (s *Sentinel) Error() string { return "injected fault " + s.Tag }

// NewSentinel returns a fresh, distinguishable injected error.
func NewSentinel(tag string) error { return &Sentinel{Tag: tag} }

// NotFound is an injected error that IS a not-found condition without being the library's
// sentinel itself: errors.Is(e, resolver.ErrPackageNotFound) holds through Unwrap, as for an error a
// resolver built with fmt.Errorf("...: %w", resolver.ErrPackageNotFound). Code that re-creates the
// sentinel instead of wrapping what it was given loses this value.
type NotFound struct{ Tag string }

func (n *NotFound) Error() string { return "injected not-found " + n.Tag }
func (n *NotFound) Unwrap() error { return resolver.ErrPackageNotFound }

func NewNotFound(tag string) error { return &NotFound{Tag: tag} }

// Temp is an injected error that calls itself temporary (as net errors and some resolvers' errors
// do). A failure is a failure: the library must report it, not paper over it by asking again.
type Temp struct{ Tag string }

func (t *Temp) Error() string   { return "injected temporary failure " + t.Tag }
func (t *Temp) Temporary() bool { return true }
func (t *Temp) Timeout() bool   { return true }

func NewTemp(tag string) error { return &Temp{Tag: tag} }

// IsInjected reports whether err wraps any injected fault.
func IsInjected(err error) bool {
	var s *Sentinel
	if errors.As(err, &s) {
		return true
	}
	var n *NotFound
	if errors.As(err, &n) {
		return true
	}
	var t *Temp
	return errors.As(err, &t)
}

// Plan says which calls of a wrapper fail.
type Plan struct {
	FromCall  int             // 1-based; 0 = none. Every call from this one on fails (a resolver that stays down).
	JunkName  bool            // return a non-empty name together with the error (callers must look at the error)
	KthCall   int             // 1-based; 0 = none. The k-th call fails.
	Paths     map[string]bool // path-keyed: fail whenever asked for one of these paths
	Transient int             // if >0, only the first Transient matching calls fail, then the fault heals
	Err       error           // error to return; defaults to a fresh sentinel
}

func (p *Plan) err() error {
	if p.Err == nil {
		p.Err = NewSentinel("resolver")
	}
	return p.Err
}

// Ident wraps a DecoratorResolver.
type Ident struct {
	Inner resolver.DecoratorResolver
	Plan  *Plan
	Calls int
	Fired int
	Yield func(site string) // optional decision point before each call (C16)
	Log   func(site string, id *ast.Ident)
}

func (w *Ident) ResolveIdent(file *ast.File, parent ast.Node, parentField string, id *ast.Ident) (string, error) {
	if w.Yield != nil {
		w.Yield("ident")
	}
	w.Calls++
	if w.Log != nil {
		w.Log("ident", id)
	}
	if w.Plan != nil && w.Plan.KthCall == w.Calls {
		if w.Plan.Transient == 0 || w.Fired < w.Plan.Transient {
			w.Fired++
			return "", w.Plan.err()
		}
	}
	return w.Inner.ResolveIdent(file, parent, parentField, id)
}

// Pkg wraps a RestorerResolver.
type Pkg struct {
	// mu: one wrapper belongs to one caller (never shared between simulated workers, so it orders
	// nothing the properties care about), but a changed dst may call it from goroutines of its own
	// and that must show as a property violation, not crash the harness's bookkeeping.
	mu    sync.Mutex
	Inner resolver.RestorerResolver
	Plan  *Plan
	Calls int
	Fired int
	Seen  map[string]int
	Yield func(site string)
}

func (w *Pkg) ResolvePackage(path string) (string, error) {
	if w.Yield != nil {
		w.Yield("pkg")
	}
	w.mu.Lock()
	defer w.mu.Unlock()
	w.Calls++
	if w.Seen == nil {
		w.Seen = map[string]int{}
	}
	w.Seen[path]++
	if w.Plan != nil {
		hit := w.Plan.KthCall == w.Calls || w.Plan.Paths[path] || (w.Plan.FromCall > 0 && w.Calls >= w.Plan.FromCall)
		if hit && (w.Plan.Transient == 0 || w.Fired < w.Plan.Transient) {
			w.Fired++
			if w.Plan.JunkName {
				return "junk", w.Plan.err()
			}
			return "", w.Plan.err()
		}
	}
	return w.Inner.ResolvePackage(path)
}

// SeenPaths returns the sorted set of paths asked for.
func (w *Pkg) SeenPaths() []string {
	var out []string
	for p := range w.Seen {
		out = append(out, p)
	}
	sort.Strings(out)
	return out
}

// NameResolverKinds are the read-only package-name resolvers dst ships.
const (
	KindGuessMap = iota // guess.WithMap(truth)
	KindSimple          // simple.New(truth)
	KindGobuild         // gobuild over a stub FindPackage backed by truth
	KindGuess           // guess.New(): names guessed from the path
	KindHints           // gobuild.WithHints(truth) (stub finder never consulted)
	NumKinds
	// KindGopackagesHints is gopackages.WithHints(truth): read-only as long as every lookup is
	// answered from the hints (anything else would run `go list`), so only engines that guarantee
	// that use it; it is not part of the 0..NumKinds-1 range engines draw from.
	KindGopackagesHints = NumKinds
)

func KindName(k int) string {
	return [...]string{"guess.WithMap", "simple.New", "gobuild(stub finder)", "guess.New", "gobuild.WithHints", "gopackages.WithHints"}[k]
}

// ErrStubNotFound is what the stub finder returns for unknown paths.
var ErrStubNotFound = errors.New("stub finder: cannot find package")

// StubFinder is the only stubbed component under gobuild: it answers from a map instead of the
// file system.
func StubFinder(m map[string]string) func(ctxt *build.Context, importPath, fromDir string, mode build.ImportMode) (*build.Package, error) {
	return func(ctxt *build.Context, importPath, fromDir string, mode build.ImportMode) (*build.Package, error) {
		n, ok := m[importPath]
		if !ok {
			// like go/build, which returns the partially filled package together with some errors
			// (MultiplePackageError, NoGoError): a name may accompany the error
			return &build.Package{Name: "partial", ImportPath: importPath}, fmt.Errorf("%w: %s", ErrStubNotFound, importPath)
		}
		return &build.Package{Name: n, ImportPath: importPath}, nil
	}
}

// NameResolver builds a real dst name resolver of the given kind over m.
func NameResolver(kind int, m map[string]string) resolver.RestorerResolver {
	switch kind {
	case KindGuessMap:
		return guess.WithMap(m)
	case KindSimple:
		return simple.New(m)
	case KindGobuild:
		r := gobuild.New("/sim")
		r.FindPackage = StubFinder(m)
		return r
	case KindGuess:
		return guess.New()
	case KindGopackagesHints:
		return gopackages.WithHints("/sim", m)
	case KindHints:
		r := gobuild.WithHints("/sim", m)
		r.FindPackage = StubFinder(map[string]string{})
		return r
	}
	panic("bad kind")
}

// Accurate reports whether a resolver of this kind over the truth map names every pool package
// correctly.
func Accurate(kind int) bool { return kind != KindGuess }
