package faults

import (
	"go/scanner"
	"go/token"
	"io"

	"verifsim/tape"
)

// Reader is a faulty io.Reader over stored bytes.
type Reader struct {
	Data    []byte
	pos     int
	FailAt  int   // return Err once pos >= FailAt (<0: never)
	Err     error // error to return at FailAt
	Chunk   int   // max bytes per Read (0: unlimited)
	EOFWith bool  // return the last bytes together with io.EOF
	Fired   int
}

func (r *Reader) Read(p []byte) (int, error) {
	if r.FailAt >= 0 && r.pos >= r.FailAt {
		r.Fired++
		return 0, r.Err
	}
	if r.pos >= len(r.Data) {
		return 0, io.EOF
	}
	n := len(p)
	if r.Chunk > 0 && n > r.Chunk {
		n = r.Chunk
	}
	if rem := len(r.Data) - r.pos; n > rem {
		n = rem
	}
	if r.FailAt >= 0 && r.pos+n > r.FailAt {
		n = r.FailAt - r.pos
	}
	copy(p, r.Data[r.pos:r.pos+n])
	r.pos += n
	if r.EOFWith && r.pos >= len(r.Data) {
		return n, io.EOF
	}
	return n, nil
}

// Writer is a faulty io.Writer.
type Writer struct {
	Buf    []byte
	FailAt int // fail once this many bytes were accepted (<0: never)
	Err    error
	Short  bool // on failure accept part of the buffer and report a short count with Err
	Fired  int
}

func (w *Writer) Write(p []byte) (int, error) {
	if w.FailAt >= 0 && len(w.Buf)+len(p) > w.FailAt {
		w.Fired++
		n := 0
		if w.Short {
			n = w.FailAt - len(w.Buf)
			if n < 0 {
				n = 0
			}
			w.Buf = append(w.Buf, p[:n]...)
		}
		return n, w.Err
	}
	w.Buf = append(w.Buf, p...)
	return len(p), nil
}

// Storage fault kinds.
const (
	SfTruncate = iota
	SfBitFlip
	SfZeroRange
	SfGarbage
	SfDropRange
	SfDupRange
	SfSwapRanges
	SfSyntaxByte // overwrite one byte with a syntactically significant character
	SfComment    // a comment appears at a token boundary (stray bytes that happen to lex as a comment)
	NumStorageFaults
)

var StorageFaultNames = [...]string{"truncate", "bitflip", "zero-range", "garbage-range", "drop-range", "dup-range", "swap-ranges", "syntax-byte", "comment-insert"}

const syntaxBytes = "{}()[];,.\"'`/*\n\\:=<>&|!+-\x00\xff"

// Corrupt applies one storage fault to data (returns a new slice) and describes it.
func Corrupt(t *tape.Tape, data []byte, kind int) ([]byte, string) {
	n := len(data)
	out := append([]byte(nil), data...)
	if n == 0 {
		return out, "noop(empty)"
	}
	rng := func() (int, int) {
		a := t.Draw(n)
		l := 1 + t.Draw(min(64, n-a))
		return a, a + l
	}
	switch kind {
	case SfTruncate:
		k := t.Draw(n + 1)
		return out[:k], sprintf("truncate@%d", k)
	case SfBitFlip:
		k := t.Draw(n)
		b := t.Draw(8)
		out[k] ^= 1 << uint(b)
		return out, sprintf("bitflip@%d.%d", k, b)
	case SfZeroRange:
		a, b := rng()
		for i := a; i < b; i++ {
			out[i] = 0
		}
		return out, sprintf("zero[%d:%d]", a, b)
	case SfGarbage:
		a, b := rng()
		for i := a; i < b; i++ {
			out[i] = byte(t.Draw(256))
		}
		return out, sprintf("garbage[%d:%d]", a, b)
	case SfDropRange:
		a, b := rng()
		return append(out[:a:a], out[b:]...), sprintf("drop[%d:%d]", a, b)
	case SfDupRange:
		a, b := rng()
		dup := append([]byte(nil), out[a:b]...)
		res := append(append(append([]byte(nil), out[:b]...), dup...), out[b:]...)
		return res, sprintf("dup[%d:%d]", a, b)
	case SfSwapRanges:
		a, b := rng()
		c, d := rng()
		if c < b {
			return out, "noop(overlap)"
		}
		var res []byte
		res = append(res, out[:a]...)
		res = append(res, out[c:d]...)
		res = append(res, out[b:c]...)
		res = append(res, out[a:b]...)
		res = append(res, out[d:]...)
		return res, sprintf("swap[%d:%d]<->[%d:%d]", a, b, c, d)
	case SfComment:
		offs := TokenOffsets(data)
		if len(offs) == 0 {
			return out, "noop(no tokens)"
		}
		k := offs[t.Draw(len(offs))]
		c := CommentTexts[t.Draw(len(CommentTexts))]
		res := append(append(append([]byte(nil), out[:k]...), c...), out[k:]...)
		return res, sprintf("comment@%d=%q", k, c)
	case SfSyntaxByte:
		k := t.Draw(n)
		c := syntaxBytes[t.Draw(len(syntaxBytes))]
		out[k] = c
		return out, sprintf("byte@%d=%q", k, c)
	}
	panic("bad storage fault kind")
}

// CommentTexts are the comments the comment-insertion fault places.
var CommentTexts = []string{"/*c*/", "//c\n", "/*c\nd*/", " /*c*/ "}

// TokenOffsets returns the byte offset of every token of src (as far as it scans).
func TokenOffsets(src []byte) []int {
	var s scanner.Scanner
	fset := token.NewFileSet()
	f := fset.AddFile("", fset.Base(), len(src))
	s.Init(f, src, func(token.Position, string) {}, scanner.ScanComments)
	var offs []int
	for {
		pos, tok, _ := s.Scan()
		if tok == token.EOF {
			break
		}
		if tok == token.SEMICOLON && !pos.IsValid() {
			continue
		}
		o := f.Offset(pos)
		if len(offs) == 0 || offs[len(offs)-1] != o {
			offs = append(offs, o)
		}
	}
	return append(offs, len(src))
}

func min(a, b int) int {
	if a < b {
		return a
	}
	return b
}
