package faults

import "fmt"

func sprintf(f string, a ...interface{}) string { return fmt.Sprintf(f, a...) }
