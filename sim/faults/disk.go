package faults

import (
	"fmt"
	"os"
	"sort"
	"sync"
)

// WriteRec is one journal entry of the simulated disk.
type WriteRec struct {
	Seq     int
	Path    string
	Data    []byte
	Perm    os.FileMode
	Outcome string // "ok", "error-before", "torn@N"
}

// DiskPlan: the j-th WriteFile call (1-based, counted over the disk's life) fails.
type DiskPlan struct {
	KthWrite int
	Torn     bool // persist a prefix, then fail (otherwise fail before any byte)
	TornAt   int  // prefix length as a fraction in 0..1000 of the data length
	Err      error
}

// Disk is the simulated disk behind Package.save's writeFile seam. WriteFile mirrors
// ioutil.WriteFile: truncate, write, close. Only faults a caller can observe are injected (an
// error before any byte; a torn write that persists a prefix and returns an error); a lying disk
// (silently lost or misdirected writes) is not simulated, because no code that only calls
// WriteFile could satisfy C20 against it.
type Disk struct {
	mu      sync.Mutex // dst has no goroutines of its own; should a change give it some, their writes must not crash the harness
	Files   map[string][]byte
	Journal []WriteRec
	Plan    *DiskPlan
	Writes  int
	Fired   int
}

func NewDisk() *Disk { return &Disk{Files: map[string][]byte{}} }

func (d *Disk) WriteFile(name string, data []byte, perm os.FileMode) error {
	d.mu.Lock()
	defer d.mu.Unlock()
	d.Writes++
	rec := WriteRec{Seq: d.Writes, Path: name, Data: append([]byte(nil), data...), Perm: perm, Outcome: "ok"}
	if d.Plan != nil && d.Plan.KthWrite == d.Writes {
		d.Fired++
		if d.Plan.Err == nil {
			d.Plan.Err = NewSentinel("disk")
		}
		if d.Plan.Torn {
			n := len(data) * d.Plan.TornAt / 1000
			d.Files[name] = append([]byte(nil), data[:n]...)
			rec.Outcome = fmt.Sprintf("torn@%d", n)
		} else {
			rec.Outcome = "error-before"
		}
		d.Journal = append(d.Journal, rec)
		return &os.PathError{Op: "write", Path: name, Err: d.Plan.Err}
	}
	d.Files[name] = append([]byte(nil), data...)
	d.Journal = append(d.Journal, rec)
	return nil
}

// View returns a consistent copy of the whole disk state (files, journal, counters, plan).
func (d *Disk) View() *Disk {
	d.mu.Lock()
	defer d.mu.Unlock()
	v := &Disk{Files: map[string][]byte{}, Writes: d.Writes, Fired: d.Fired, Plan: d.Plan}
	for k, b := range d.Files {
		v.Files[k] = append([]byte(nil), b...)
	}
	v.Journal = append([]WriteRec(nil), d.Journal...)
	return v
}

// SetPlan arms (or clears) the write fault.
func (d *Disk) SetPlan(p *DiskPlan) {
	d.mu.Lock()
	d.Plan = p
	d.mu.Unlock()
}

// ResetFired clears the fired counter.
func (d *Disk) ResetFired() {
	d.mu.Lock()
	d.Fired = 0
	d.mu.Unlock()
}

// Put stores a file without journaling it (initial disk contents).
func (d *Disk) Put(name string, data []byte) {
	d.mu.Lock()
	d.Files[name] = append([]byte(nil), data...)
	d.mu.Unlock()
}

// Snapshot returns a copy of the file map.
func (d *Disk) Snapshot() map[string][]byte {
	d.mu.Lock()
	defer d.mu.Unlock()
	out := map[string][]byte{}
	for k, v := range d.Files {
		out[k] = append([]byte(nil), v...)
	}
	return out
}

func (d *Disk) Paths() []string {
	d.mu.Lock()
	defer d.mu.Unlock()
	var ps []string
	for p := range d.Files {
		ps = append(ps, p)
	}
	sort.Strings(ps)
	return ps
}
