package faults

import (
	"fmt"
	"os"
	"sort"
)

// WriteRec is one journal entry of the simulated disk.
type WriteRec struct {
	Seq     int
	Path    string
	Data    []byte
	Perm    os.FileMode
	Outcome string // "ok", "error-before", "torn@N"
}

// DiskPlan: the j-th WriteFile call (1-based, counted over the disk's life) fails.
type DiskPlan struct {
	KthWrite int
	Torn     bool // persist a prefix, then fail (otherwise fail before any byte)
	TornAt   int  // prefix length as a fraction in 0..1000 of the data length
	Err      error
}

// Disk is the simulated disk behind Package.save's writeFile seam. WriteFile mirrors
// ioutil.WriteFile: truncate, write, close. Only faults a caller can observe are injected (an
// error before any byte; a torn write that persists a prefix and returns an error); a lying disk
// (silently lost or misdirected writes) is not simulated, because no code that only calls
// WriteFile could satisfy C20 against it.
type Disk struct {
	Files   map[string][]byte
	Journal []WriteRec
	Plan    *DiskPlan
	Writes  int
	Fired   int
}

func NewDisk() *Disk { return &Disk{Files: map[string][]byte{}} }

func (d *Disk) WriteFile(name string, data []byte, perm os.FileMode) error {
	d.Writes++
	rec := WriteRec{Seq: d.Writes, Path: name, Data: append([]byte(nil), data...), Perm: perm, Outcome: "ok"}
	if d.Plan != nil && d.Plan.KthWrite == d.Writes {
		d.Fired++
		if d.Plan.Err == nil {
			d.Plan.Err = NewSentinel("disk")
		}
		if d.Plan.Torn {
			n := len(data) * d.Plan.TornAt / 1000
			d.Files[name] = append([]byte(nil), data[:n]...)
			rec.Outcome = fmt.Sprintf("torn@%d", n)
		} else {
			rec.Outcome = "error-before"
		}
		d.Journal = append(d.Journal, rec)
		return &os.PathError{Op: "write", Path: name, Err: d.Plan.Err}
	}
	d.Files[name] = append([]byte(nil), data...)
	d.Journal = append(d.Journal, rec)
	return nil
}

// Snapshot returns a copy of the file map.
func (d *Disk) Snapshot() map[string][]byte {
	out := map[string][]byte{}
	for k, v := range d.Files {
		out[k] = append([]byte(nil), v...)
	}
	return out
}

func (d *Disk) Paths() []string {
	var ps []string
	for p := range d.Files {
		ps = append(ps, p)
	}
	sort.Strings(ps)
	return ps
}
