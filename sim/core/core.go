// Package core holds what every engine shares: the run context (tape, event log, counters), the
// violation record and panic capture.
package core

import (
	"crypto/sha256"
	"encoding/hex"
	"fmt"
	"regexp"
	"runtime"
	"sort"
	"strings"

	"verifsim/tape"
)

// Violation is one failed oracle.
type Violation struct {
	Class  string `json:"class"`  // oracle that failed, e.g. "c17/restore/tree-modified"
	Sig    string `json:"sig"`    // class plus the stable detail used to match known findings
	Detail string `json:"detail"` // human readable, may vary between inputs
}

func (v *Violation) String() string { return v.Sig + " :: " + v.Detail }

// Run is the context of one simulated run.
type Run struct {
	Prop     string
	T        *tape.Tape
	Tier     string
	Events   []string         // event log; never timestamps, never map-order dependent content
	Counters map[string]int64 // reach probes and fault counters (fired, not configured)
	Distinct map[string]bool  // distinct-case keys (hashes) contributed by this run
	Desc     []string         // human description of the workload (for replay files / samples)
	Viol     *Violation
	Soft     *Violation // a violation that does not end the run (recorded once; becomes Viol if nothing else fails)
	Steps    int64
}

func NewRun(prop string, t *tape.Tape, tier string) *Run {
	return &Run{Prop: prop, T: t, Tier: tier, Counters: map[string]int64{}, Distinct: map[string]bool{}}
}

func (r *Run) Event(format string, a ...interface{}) {
	r.Events = append(r.Events, fmt.Sprintf(format, a...))
	r.Steps++
}

func (r *Run) Count(k string) { r.Counters[k]++ }

func (r *Run) Add(k string, n int64) { r.Counters[k] += n }

func (r *Run) Describe(format string, a ...interface{}) {
	r.Desc = append(r.Desc, fmt.Sprintf(format, a...))
}

func (r *Run) Case(key string) { r.Distinct[key] = true }

// Fail records the first violation of the run.
func (r *Run) Fail(class, sigDetail, format string, a ...interface{}) {
	if r.Viol != nil {
		return
	}
	sig := class
	if sigDetail != "" {
		sig += ":" + sigDetail
	}
	r.Viol = &Violation{Class: class, Sig: sig, Detail: fmt.Sprintf(format, a...)}
}

func (r *Run) Failed() bool { return r.Viol != nil }

// SoftFail records a violation but lets the run go on, so that the rest of the run's obligations
// are still checked (used for failures that match a narrowly classified, already known defect).
func (r *Run) SoftFail(class, sigDetail, format string, a ...interface{}) {
	if r.Soft != nil || r.Viol != nil {
		return
	}
	sig := class
	if sigDetail != "" {
		sig += ":" + sigDetail
	}
	r.Soft = &Violation{Class: class, Sig: sig, Detail: fmt.Sprintf(format, a...)}
}

// Finish promotes a soft violation when nothing else failed.
func (r *Run) Finish() {
	if r.Viol == nil && r.Soft != nil {
		r.Viol = r.Soft
	}
}

// EventHash is the determinism fingerprint of a run.
func (r *Run) EventHash() string {
	h := sha256.New()
	for _, e := range r.Events {
		h.Write([]byte(e))
		h.Write([]byte{'\n'})
	}
	return hex.EncodeToString(h.Sum(nil)[:8])
}

func (r *Run) SortedCounters() []string {
	var ks []string
	for k := range r.Counters {
		ks = append(ks, k)
	}
	sort.Strings(ks)
	return ks
}

// PanicInfo describes a recovered panic.
type PanicInfo struct {
	Value string
	Func  string // innermost github.com/dave/dst function on the stack
	Stack string
}

var digits = regexp.MustCompile(`[0-9]+`)
var hexptr = regexp.MustCompile(`0x[0-9a-fA-F]+`)
var quoted = regexp.MustCompile(`"[^"]*"`)

// MsgClass normalises a panic message so that inputs that hit the same panic share a class.
func MsgClass(s string) string {
	s = quoted.ReplaceAllString(s, `"…"`)
	s = hexptr.ReplaceAllString(s, "PTR")
	s = digits.ReplaceAllString(s, "N")
	if i := strings.Index(s, "\n"); i >= 0 {
		s = s[:i]
	}
	// "no decoration found for // comment text": keep the fixed prefix only
	for _, p := range []string{"no decoration found for", "duplicate node", "Path "} {
		if strings.HasPrefix(s, p) {
			s = p
			if p == "Path " {
				s = "Path set on illegal Ident"
			}
		}
	}
	if len(s) > 70 {
		s = s[:70]
	}
	s = strings.Replace(s, " ", "_", -1)
	return s
}

// Catch runs f and returns a PanicInfo if it panicked.
func Catch(f func()) (pi *PanicInfo) {
	defer func() {
		if v := recover(); v != nil {
			pi = &PanicInfo{Value: fmt.Sprint(v)}
			pcs := make([]uintptr, 64)
			n := runtime.Callers(2, pcs)
			frames := runtime.CallersFrames(pcs[:n])
			var sb strings.Builder
			for {
				fr, more := frames.Next()
				if pi.Func == "" && strings.Contains(fr.Function, "github.com/dave/dst") && !strings.Contains(fr.Function, "github.com/dave/dst/verifyield") {
					pi.Func = shortFunc(fr.Function)
				}
				fmt.Fprintf(&sb, "%s %s:%d\n", fr.Function, fr.File, fr.Line)
				if !more {
					break
				}
			}
			pi.Stack = sb.String()
			if pi.Func == "" {
				pi.Func = "outside-dst"
			}
		}
	}()
	f()
	return nil
}

func shortFunc(fn string) string {
	fn = strings.TrimPrefix(fn, "github.com/dave/dst/")
	fn = strings.TrimPrefix(fn, "github.com/dave/dst")
	// closures: decorator.(*fileDecorator).fragment.func1 -> keep
	return fn
}

// PanicSig is the signature used for known-finding matching: innermost dst function + message class.
func (p *PanicInfo) Sig() string { return p.Func + "|" + MsgClass(p.Value) }
