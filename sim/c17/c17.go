// Package c17 decides C17: a resolver failure at any call surfaces as an error wrapping it, emits
// nothing, leaves the input tree unmodified, and a retry with a working resolver and a fresh
// decorator/restorer gives exactly the failure-free result.
//
// One run = one workload drawn from the tape, then EVERY single-fault plan over that workload's
// resolver call sequence (decorate side k=1..N, inner name resolver j=1..M, restore side every
// path and every call index, plus the natural not-found faults), plus tape-sampled multi-fault
// sequences. The fault-free configuration runs first and must be deterministic.
package c17

import (
	"bytes"
	"errors"
	"fmt"
	"go/ast"
	"go/parser"
	"go/token"
	"io/ioutil"
	"os"
	"path/filepath"
	"sort"
	"strings"

	"github.com/dave/dst"
	"github.com/dave/dst/decorator"
	"github.com/dave/dst/decorator/resolver"
	"github.com/dave/dst/decorator/resolver/goast"

	"verifsim/core"
	"verifsim/dump"
	"verifsim/edits"
	"verifsim/faults"
	"verifsim/gen"
)

const LocalPath = "sim.local/pkg"

type workload struct {
	spec       gen.Spec
	decKind    int
	resKind    int
	script     []edits.Edit
	alias      map[string]string
	extras     bool
	entry      int  // decorate entry point: 0 DecorateFile, 1 ParseFile, 2 DecorateNode
	sameGoast  bool // retry on the same goast instance (its per-file cache survives the failure)
	restoreAPI int  // 0 FileRestorer.Fprint, 1 Restorer.Fprint (no alias), 2 RestoreFile
	localPaths bool // ResolveLocalPath
	// injected restore-side errors are not-found conditions that wrap resolver.ErrPackageNotFound
	notFoundErrs bool
	tempErrs     bool // injected errors call themselves temporary
	stayDown     bool // the inner name resolver fails from call j on (not just once)
	junkNames    bool // failing name-resolver calls return a non-empty name with the error
}

type countWriter struct {
	n   int
	buf bytes.Buffer
}

func (c *countWriter) Write(p []byte) (int, error) {
	c.n += len(p)
	return c.buf.Write(p)
}

func parse(src string) (*token.FileSet, *ast.File, error) {
	fset := token.NewFileSet()
	f, err := parser.ParseFile(fset, "sim.go", src, parser.ParseComments)
	return fset, f, err
}

// decorateWith runs the chosen decorate entry point.
func decorateWith(w *workload, fset *token.FileSet, af *ast.File, res resolver.DecoratorResolver) (out *dst.File, dec *decorator.Decorator, err error) {
	dec = decorator.NewDecoratorWithImports(fset, LocalPath, res)
	dec.ResolveLocalPath = w.localPaths
	switch w.entry {
	case 0:
		out, err = dec.DecorateFile(af)
	case 1:
		// parse inside the decorator (a second file in the same FileSet)
		out, err = dec.ParseFile("sim2.go", w.spec.Src, 0)
	default:
		var n dst.Node
		n, err = dec.DecorateNode(af)
		if n != nil {
			out = n.(*dst.File)
		}
	}
	return
}

type decoEnv struct {
	inner *faults.Pkg
	ga    *goast.DecoratorResolver
	iw    *faults.Ident
}

func newDecoEnv(w *workload, truth map[string]string, identPlan, innerPlan *faults.Plan) *decoEnv {
	e := &decoEnv{}
	e.inner = &faults.Pkg{Inner: faults.NameResolver(w.decKind, truth), Plan: innerPlan}
	e.ga = goast.WithResolver(e.inner)
	e.iw = &faults.Ident{Inner: e.ga, Plan: identPlan}
	return e
}

func aliasDump(m map[string]string) string {
	var ks []string
	for k := range m {
		ks = append(ks, k)
	}
	sort.Strings(ks)
	var sb strings.Builder
	for _, k := range ks {
		fmt.Fprintf(&sb, "%q=%q;", k, m[k])
	}
	return sb.String()
}

func copyAlias(m map[string]string) map[string]string {
	out := map[string]string{}
	for k, v := range m {
		out[k] = v
	}
	return out
}

// buildTree constructs (deterministically) the tree the restore-side checks work on: parse,
// decorate with a working resolver, apply the edit script. Twin trees are built by calling this
// again, never by cloning.
func buildTree(w *workload, truth map[string]string) (*dst.File, error) {
	fset, af, err := parse(w.spec.Src)
	if err != nil {
		return nil, fmt.Errorf("harness: generated source does not parse: %v", err)
	}
	e := newDecoEnv(w, truth, nil, nil)
	d, _, err := decorateWith(w, fset, af, e.iw)
	if err != nil {
		return nil, err
	}
	edits.Apply(d, w.script)
	return d, nil
}

// restoreWith prints d through the chosen API. Returns bytes written, whether a non-nil ast was
// returned (RestoreFile API), and the error.
func restoreWith(w *workload, d *dst.File, res resolver.RestorerResolver, alias map[string]string) (out []byte, emitted bool, err error) {
	r := decorator.NewRestorerWithImports(LocalPath, res)
	r.Extras = w.extras
	switch w.restoreAPI {
	case 0:
		fr := r.FileRestorer()
		fr.Alias = alias
		cw := &countWriter{}
		err = fr.Fprint(cw, d)
		return cw.buf.Bytes(), cw.n > 0, err
	case 1:
		cw := &countWriter{}
		err = r.Fprint(cw, d)
		return cw.buf.Bytes(), cw.n > 0, err
	default:
		fr := r.FileRestorer()
		fr.Alias = alias
		af, err := fr.RestoreFile(d)
		if err != nil {
			return nil, af != nil, err
		}
		cw := &countWriter{}
		// print the restored file so that results stay comparable as bytes
		if perr := printAst(cw, r.Fset, af); perr != nil {
			return nil, true, nil
		}
		return cw.buf.Bytes(), true, nil
	}
}

func draw(run *core.Run) *workload {
	t := run.T
	w := &workload{}
	opt := gen.Options{MaxImports: 6, MaxDecls: 5, AllowDot: t.Bool(1, 12), AllowCgo: true, Conflicts: t.Bool(1, 2)}
	w.spec = gen.Source(t, opt)
	w.decKind = t.Draw(faults.NumKinds)
	w.resKind = t.Draw(faults.NumKinds)
	w.script = edits.Script(t, 4, opt.Conflicts, true)
	w.alias = map[string]string{}
	if t.Bool(1, 3) {
		n := 1 + t.Draw(2)
		for i := 0; i < n; i++ {
			p := gen.Pool[t.Draw(gen.NumPlain)]
			w.alias[p.Path] = []string{"", "ali", "x", "_", "q1"}[t.Draw(5)]
		}
	}
	w.extras = t.Bool(1, 6)
	w.entry = t.Draw(3)
	w.sameGoast = t.Bool(1, 2)
	w.restoreAPI = t.Draw(3)
	if w.restoreAPI == 1 {
		w.alias = map[string]string{}
	}
	w.localPaths = t.Bool(1, 8)
	w.notFoundErrs = t.Bool(1, 3)
	w.tempErrs = !w.notFoundErrs && t.Bool(1, 3)
	w.stayDown = t.Bool(1, 3)
	w.junkNames = t.Bool(1, 2)
	run.Describe("source (%d bytes, %d imports, %d decls):\n%s", len(w.spec.Src), len(w.spec.Imports), w.spec.Decls, w.spec.Src)
	run.Describe("decorate resolver: goast over %s; restore resolver: %s; entry=%d restoreAPI=%d extras=%v sameGoast=%v resolveLocal=%v",
		faults.KindName(w.decKind), faults.KindName(w.resKind), w.entry, w.restoreAPI, w.extras, w.sameGoast, w.localPaths)
	for _, e := range w.script {
		run.Describe("edit %s", e)
	}
	if len(w.alias) > 0 {
		run.Describe("alias %s", aliasDump(w.alias))
	}
	return w
}

// Run executes one C17 run.
func Run(run *core.Run) {
	w := draw(run)
	truth := gen.Truth()
	wkey := dump.HashString(w.spec.Src + fmt.Sprint(w.decKind, w.resKind, w.script, aliasDump(w.alias), w.entry, w.restoreAPI, w.extras, w.localPaths))

	// ---- fault-free configuration (must be deterministic and is the twin for everything below)
	fset, af, err := parse(w.spec.Src)
	if err != nil {
		panic("harness: generated source does not parse: " + err.Error())
	}
	astBefore := dump.String(af, dump.Options{Pos: true})
	env := newDecoEnv(w, truth, nil, nil)
	var d *dst.File
	var derr error
	if pi := core.Catch(func() { d, _, derr = decorateWith(w, fset, af, env.iw) }); pi != nil {
		run.Fail("c17/faultfree/panic", pi.Sig(), "fault-free decorate panicked: %s\n%s", pi.Value, pi.Stack)
		return
	}
	run.Event("decorate calls ident=%d inner=%d err=%v", env.iw.Calls, env.inner.Calls, derr != nil)
	if a := dump.String(af, dump.Options{Pos: true}); a != astBefore {
		run.Fail("c17/decorate/input-modified", dump.DiffField(astBefore, a), "ast.File modified by a decorate (err=%v): %s", derr, dump.FirstDiff(astBefore, a))
		return
	}
	if derr != nil {
		// a natural fault: dot-import refused by goast, or a name the inner resolver cannot give
		run.Count("natural-decorate-error")
		if errors.Is(derr, resolver.ErrPackageNotFound) || errors.Is(derr, faults.ErrStubNotFound) {
			run.Count("natural-decorate-error-notfound")
		}
		if d != nil {
			run.Fail("c17/decorate/tree-emitted", "natural", "decorate returned both a tree and error %v", derr)
		}
		run.Case("natural-dec:" + wkey)
		return
	}
	N, M := env.iw.Calls, env.inner.Calls
	twinDecorated := dump.String(d, dump.Options{})

	// second construction must equal the first (fault-free determinism)
	d2, err := buildTree(w, truth)
	if err != nil {
		run.Fail("c17/faultfree/nondeterministic", "decorate-error", "second fault-free decorate failed: %v", err)
		return
	}
	edits.Apply(d, w.script)
	if a, b := dump.String(d, dump.Options{}), dump.String(d2, dump.Options{}); a != b {
		run.Fail("c17/faultfree/nondeterministic", "tree:"+dump.DiffField(a, b), "two fault-free constructions differ: %s", dump.FirstDiff(a, b))
		return
	}
	treeBefore := dump.String(d, dump.Options{})

	rw := &faults.Pkg{Inner: faults.NameResolver(w.resKind, truth)}
	var twinBytes []byte
	var rerr error
	if pi := core.Catch(func() { twinBytes, _, rerr = restoreWith(w, d, rw, copyAlias(w.alias)) }); pi != nil {
		// a panic without any fault is outside C17 (C15/C07 territory): recorded, not judged here,
		// unless the same tree panics only when faults are involved (checked below).
		run.Count("faultfree-restore-panic")
		run.Event("faultfree restore panic %s", pi.Sig())
		return
	}
	P := rw.SeenPaths()
	if rerr != nil {
		// how many lookups precede a failing one is Go's map order: not part of the event log
		run.Event("restore err=true")
	} else {
		run.Event("restore calls=%d paths=%d err=false", rw.Calls, len(P))
	}
	if rerr != nil && !errors.Is(rerr, resolver.ErrPackageNotFound) && !errors.Is(rerr, faults.ErrStubNotFound) {
		// not a resolver failure (go/format refusing an ill-formed result, e.g. a guessed package
		// name such as "bar-go"): outside C17, the restore itself succeeded and legitimately
		// updated the imports. Recorded, never judged.
		run.Count("faultfree-restore-format-error")
		return
	}
	if rerr != nil {
		run.Count("natural-restore-error")
		// natural fault on the restore side: same obligations
		if len(twinBytes) > 0 {
			run.Fail("c17/restore/output-emitted", "natural", "restore wrote %d bytes and returned error %v", len(twinBytes), rerr)
			return
		}
		if a := dump.String(d, dump.Options{}); a != treeBefore {
			run.Fail("c17/restore/input-modified", "natural:"+dump.DiffField(treeBefore, a), "tree modified by a failed restore (%v): %s", rerr, dump.FirstDiff(treeBefore, a))
			return
		}
		run.Case("natural-res:" + wkey)
		// the retry with an accurate resolver must still work; its reference is a twin printed
		// with that same accurate resolver
		w2 := *w
		w2.resKind = faults.KindGuessMap
		ref, err := buildTree(&w2, truth)
		if err != nil {
			return
		}
		var refBytes, got []byte
		var e1, e2 error
		if pi := core.Catch(func() {
			refBytes, _, e1 = restoreWith(&w2, ref, faults.NameResolver(faults.KindGuessMap, truth), copyAlias(w.alias))
		}); pi != nil {
			return
		}
		if pi := core.Catch(func() {
			got, _, e2 = restoreWith(&w2, d, faults.NameResolver(faults.KindGuessMap, truth), copyAlias(w.alias))
		}); pi != nil {
			run.Fail("c17/restore/retry-panic", pi.Sig(), "retry after natural failure panicked: %s", pi.Value)
			return
		}
		if (e1 == nil) != (e2 == nil) || !bytes.Equal(refBytes, got) {
			run.Fail("c17/restore/retry-mismatch", "natural", "retry after natural failure differs from failure-free run (err %v vs %v)", e2, e1)
		}
		return
	}
	twin2, err := buildTree(w, truth)
	if err == nil {
		var b2 []byte
		var e2 error
		if pi := core.Catch(func() {
			b2, _, e2 = restoreWith(w, twin2, faults.NameResolver(w.resKind, truth), copyAlias(w.alias))
		}); pi != nil || e2 != nil || !bytes.Equal(b2, twinBytes) {
			run.Fail("c17/faultfree/nondeterministic", "bytes", "two fault-free restores of twin trees differ")
			return
		}
	}
	run.Count("workloads-complete")
	if len(w.script) > 0 {
		run.Count("workloads-with-edits")
	}

	// ---- every single fault on the decorate side
	fired := func() int64 {
		var n int64
		for k, v := range run.Counters {
			if strings.HasPrefix(k, "fault-fired/") {
				n += v
			}
		}
		return n
	}
	// cased runs f and records key as a distinct non-trivial case only if a fault actually fired in it
	cased := func(key string, f func()) {
		b := fired()
		f()
		if fired() > b {
			run.Case(key)
		}
	}
	for k := 1; k <= N && !run.Failed(); k++ {
		cased(fmt.Sprintf("%s:ident:%d", wkey, k), func() {
			plan := &faults.Plan{KthCall: k}
			if w.tempErrs {
				plan.Err = faults.NewTemp(fmt.Sprint(k))
			}
			decorateFault(run, w, truth, plan, nil, twinDecorated, fmt.Sprintf("ident#%d", k))
		})
	}
	for j := 1; j <= M && !run.Failed(); j++ {
		cased(fmt.Sprintf("%s:inner:%d", wkey, j), func() {
			plan := &faults.Plan{KthCall: j, Transient: 1, JunkName: w.junkNames}
			if w.stayDown {
				plan = &faults.Plan{FromCall: j, JunkName: w.junkNames} // stays down until the retry
			}
			if w.notFoundErrs {
				plan.Err = faults.NewNotFound(fmt.Sprint(j))
			} else if w.tempErrs {
				plan.Err = faults.NewTemp(fmt.Sprint(j))
			}
			decorateFault(run, w, truth, nil, plan, twinDecorated, fmt.Sprintf("inner#%d", j))
		})
	}
	// ---- every single fault on the restore side
	for _, p := range P {
		if run.Failed() {
			break
		}
		p := p
		cased(fmt.Sprintf("%s:path:%s", wkey, p), func() {
			plan := &faults.Plan{Paths: map[string]bool{p: true}, JunkName: w.junkNames}
			if w.notFoundErrs {
				plan.Err = faults.NewNotFound(p) // a not-found condition that is not the bare sentinel
			} else if w.tempErrs {
				plan.Err = faults.NewTemp(p)
			}
			restoreFault(run, w, truth, []*faults.Plan{plan}, twinBytes, "path:"+p)
		})
	}
	for k := 1; k <= len(P) && !run.Failed(); k++ {
		cased(fmt.Sprintf("%s:call:%d", wkey, k), func() {
			plan := &faults.Plan{KthCall: k, JunkName: w.junkNames}
			if w.stayDown {
				plan = &faults.Plan{FromCall: k, JunkName: w.junkNames} // a resolver that stays down: every later call fails too
			}
			if w.notFoundErrs {
				plan.Err = faults.NewNotFound(fmt.Sprint(k))
			} else if w.tempErrs {
				plan.Err = faults.NewTemp(fmt.Sprint(k))
			}
			restoreFault(run, w, truth, []*faults.Plan{plan}, twinBytes, fmt.Sprintf("call#%d", k))
		})
	}
	// natural not-found faults: the real simple / gobuild resolvers over a map lacking one path
	for _, p := range P {
		if run.Failed() {
			break
		}
		p := p
		cased(fmt.Sprintf("%s:natural:%s", wkey, p), func() { naturalRestoreFault(run, w, truth, p, twinBytes) })
	}
	// ---- sampled multi-fault sequences
	nseq := 2
	if run.Tier == "thorough" {
		nseq = 6
	}
	for s := 0; s < nseq && !run.Failed(); s++ {
		if N > 0 && run.T.Bool(1, 2) {
			k1, k2 := 1+run.T.Draw(N), 1+run.T.Draw(N)
			cased(fmt.Sprintf("%s:identseq:%d,%d", wkey, k1, k2), func() { decorateFaultSeq(run, w, truth, []int{k1, k2}, twinDecorated) })
		} else if len(P) > 0 {
			var plans []*faults.Plan
			nf := 2 + run.T.Draw(2)
			key := ""
			for i := 0; i < nf; i++ {
				if run.T.Bool(1, 2) {
					p := P[run.T.Draw(len(P))]
					plans = append(plans, &faults.Plan{Paths: map[string]bool{p: true}})
					key += "p:" + p + ","
				} else {
					k := 1 + run.T.Draw(len(P))
					plans = append(plans, &faults.Plan{KthCall: k})
					key += fmt.Sprintf("k:%d,", k)
				}
			}
			cased(fmt.Sprintf("%s:resseq:%s", wkey, key), func() { restoreFault(run, w, truth, plans, twinBytes, "seq") })
		}
	}
	// ---- decoration of things that are not a single *ast.File: an isolated node and a directory
	if !run.Failed() && run.T.Bool(1, 3) {
		nonFileFaults(run, w, wkey, cased)
	}
	// ---- a source with syntax errors: the parser still returns a (partial) file, which is decorated
	if !run.Failed() && run.T.Bool(1, 3) {
		brokenSourceFaults(run, w, truth, wkey, cased)
	}
}

// decorateFault injects one fault on the decorate side and checks the five obligations.
func decorateFault(run *core.Run, w *workload, truth map[string]string, identPlan, innerPlan *faults.Plan, twin string, label string) {
	fset, af, err := parse(w.spec.Src)
	if err != nil {
		panic(err)
	}
	before := dump.String(af, dump.Options{Pos: true})
	env := newDecoEnv(w, truth, identPlan, innerPlan)
	var out *dst.File
	var derr error
	pi := core.Catch(func() { out, _, derr = decorateWith(w, fset, af, env.iw) })
	fired := env.iw.Fired + env.inner.Fired
	run.Event("decfault %s fired=%d err=%v", label, fired, derr != nil)
	if pi != nil {
		run.Fail("c17/decorate/panic", pi.Sig(), "decorate panicked with fault %s: %s\n%s", label, pi.Value, pi.Stack)
		return
	}
	if fired == 0 {
		run.Count("decorate-fault-not-reached")
		return
	}
	if identPlan != nil {
		run.Count("fault-fired/ident-kth")
	} else {
		run.Count("fault-fired/inner-kth")
	}
	var want error
	if identPlan != nil {
		want = identPlan.Err
	} else {
		want = innerPlan.Err
	}
	if derr == nil {
		run.Fail("c17/decorate/no-error", "", "fault %s fired but decorate returned no error", label)
		return
	}
	if !errors.Is(derr, want) {
		run.Fail("c17/decorate/error-not-wrapped", "", "fault %s: returned error %q does not wrap the injected error", label, derr)
		return
	}
	if out != nil {
		run.Fail("c17/decorate/tree-emitted", "", "fault %s: decorate returned a tree together with the error", label)
		return
	}
	if a := dump.String(af, dump.Options{Pos: true}); a != before {
		run.Fail("c17/decorate/input-modified", dump.DiffField(before, a), "fault %s: ast.File modified: %s", label, dump.FirstDiff(before, a))
		return
	}
	// retry: fresh decorator, working resolver, same *ast.File
	var res resolver.DecoratorResolver
	if w.sameGoast {
		// the same goast instance with a healed name resolver: its per-file cache must not be poisoned
		res = &faults.Ident{Inner: env.ga}
		if innerPlan != nil && innerPlan.Transient == 0 {
			env.inner.Plan = nil
		}
		run.Count("retry-same-goast")
	} else {
		res = newDecoEnv(w, truth, nil, nil).iw
	}
	var out2 *dst.File
	var err2 error
	if pi := core.Catch(func() { out2, _, err2 = decorateWith(w, fset, af, res) }); pi != nil {
		run.Fail("c17/decorate/retry-panic", pi.Sig(), "retry after fault %s panicked: %s\n%s", label, pi.Value, pi.Stack)
		return
	}
	if err2 != nil {
		run.Fail("c17/decorate/retry-error", "", "retry after fault %s failed: %v", label, err2)
		return
	}
	if a := dump.String(out2, dump.Options{}); a != twin {
		run.Fail("c17/decorate/retry-mismatch", dump.DiffField(twin, a), "retry after fault %s differs from failure-free result: %s", label, dump.FirstDiff(twin, a))
		return
	}
	run.Count("decorate-retry-ok")
}

func decorateFaultSeq(run *core.Run, w *workload, truth map[string]string, ks []int, twin string) {
	fset, af, err := parse(w.spec.Src)
	if err != nil {
		panic(err)
	}
	before := dump.String(af, dump.Options{Pos: true})
	ga := goast.WithResolver(&faults.Pkg{Inner: faults.NameResolver(w.decKind, truth)})
	for i, k := range ks {
		plan := &faults.Plan{KthCall: k}
		var res resolver.DecoratorResolver
		if w.sameGoast {
			res = &faults.Ident{Inner: ga, Plan: plan}
		} else {
			res = newDecoEnv(w, truth, plan, nil).iw
		}
		var out *dst.File
		var derr error
		if pi := core.Catch(func() { out, _, derr = decorateWith(w, fset, af, res) }); pi != nil {
			run.Fail("c17/decorate/panic", pi.Sig(), "decorate panicked at fault %d of sequence %v: %s", i, ks, pi.Value)
			return
		}
		if derr == nil || !errors.Is(derr, plan.Err) || out != nil {
			run.Fail("c17/decorate/seq-bad-failure", "", "fault %d of sequence %v: err=%v tree=%v", i, ks, derr, out != nil)
			return
		}
		run.Count("fault-fired/ident-seq")
	}
	if a := dump.String(af, dump.Options{Pos: true}); a != before {
		run.Fail("c17/decorate/input-modified", "seq:"+dump.DiffField(before, a), "ast.File modified by failed decorations %v: %s", ks, dump.FirstDiff(before, a))
		return
	}
	var res resolver.DecoratorResolver = newDecoEnv(w, truth, nil, nil).iw
	if w.sameGoast {
		res = &faults.Ident{Inner: ga}
	}
	var out *dst.File
	var derr error
	if pi := core.Catch(func() { out, _, derr = decorateWith(w, fset, af, res) }); pi != nil || derr != nil {
		run.Fail("c17/decorate/retry-error", "seq", "retry after sequence %v failed: %v %v", ks, pi, derr)
		return
	}
	if a := dump.String(out, dump.Options{}); a != twin {
		run.Fail("c17/decorate/retry-mismatch", "seq:"+dump.DiffField(twin, a), "retry after sequence %v differs: %s", ks, dump.FirstDiff(twin, a))
	}
}

// restoreFault runs a sequence of failing restores (one plan each) on one tree, then a working one.
func restoreFault(run *core.Run, w *workload, truth map[string]string, plans []*faults.Plan, twinBytes []byte, label string) {
	d, err := buildTree(w, truth)
	if err != nil {
		run.Fail("c17/faultfree/nondeterministic", "rebuild", "rebuilding the tree failed: %v", err)
		return
	}
	alias := copyAlias(w.alias)
	before := dump.String(d, dump.Options{})
	aliasBefore := aliasDump(alias)
	for i, plan := range plans {
		rw := &faults.Pkg{Inner: faults.NameResolver(w.resKind, truth), Plan: plan}
		var out []byte
		var emitted bool
		var rerr error
		pi := core.Catch(func() { out, emitted, rerr = restoreWith(w, d, rw, alias) })
		run.Event("resfault %s[%d] fired=%d err=%v", label, i, rw.Fired, rerr != nil)
		if pi != nil {
			run.Fail("c17/restore/panic", pi.Sig(), "restore panicked with fault %s: %s\n%s", label, pi.Value, pi.Stack)
			return
		}
		if rw.Fired == 0 {
			// a k-th call that an earlier path-keyed failure pre-empted, or a sequence element that
			// does not apply: nothing was injected, so the call must simply succeed.
			run.Count("restore-fault-not-reached")
			if rerr != nil {
				run.Fail("c17/restore/spurious-error", "", "no fault fired but restore failed: %v", rerr)
			}
			if !bytes.Equal(out, twinBytes) {
				run.Fail("c17/restore/retry-mismatch", "unfired", "fault %s did not fire yet output differs from the failure-free result", label)
			}
			return
		}
		if plan.KthCall > 0 || plan.FromCall > 0 {
			run.Count("fault-fired/pkg-kth")
		} else {
			run.Count("fault-fired/pkg-path")
		}
		if rerr == nil {
			run.Fail("c17/restore/no-error", "", "fault %s fired but restore returned no error", label)
			return
		}
		if !errors.Is(rerr, plan.Err) {
			run.Fail("c17/restore/error-not-wrapped", "", "fault %s: returned error %q does not wrap the injected error", label, rerr)
			return
		}
		if emitted || len(out) > 0 {
			run.Fail("c17/restore/output-emitted", "", "fault %s: restore emitted output (%d bytes) together with the error", label, len(out))
			return
		}
		if a := dump.String(d, dump.Options{}); a != before {
			run.Fail("c17/restore/input-modified", dump.DiffField(before, a), "fault %s: dst.File modified by the failed restore: %s", label, dump.FirstDiff(before, a))
			return
		}
		if a := aliasDump(alias); a != aliasBefore {
			run.Fail("c17/restore/input-modified", "alias", "fault %s: Alias map modified: %s -> %s", label, aliasBefore, a)
			return
		}
	}
	// retry with a fresh restorer and a working resolver
	var out []byte
	var rerr error
	if pi := core.Catch(func() {
		out, _, rerr = restoreWith(w, d, faults.NameResolver(w.resKind, truth), alias)
	}); pi != nil {
		run.Fail("c17/restore/retry-panic", pi.Sig(), "retry after fault %s panicked: %s\n%s", label, pi.Value, pi.Stack)
		return
	}
	if rerr != nil {
		run.Fail("c17/restore/retry-error", "", "retry after fault %s failed: %v", label, rerr)
		return
	}
	if !bytes.Equal(out, twinBytes) {
		run.Fail("c17/restore/retry-mismatch", "", "retry after fault %s differs from the failure-free result:\n--- got\n%s\n--- want\n%s", label, out, twinBytes)
		return
	}
	run.Count("restore-retry-ok")
}

// naturalRestoreFault uses dst's own resolvers over a map that lacks one path.
func naturalRestoreFault(run *core.Run, w *workload, truth map[string]string, missing string, twinBytes []byte) {
	var res resolver.RestorerResolver
	var want error
	m := map[string]string{}
	for k, v := range truth {
		if k != missing {
			m[k] = v
		}
	}
	switch w.resKind {
	case faults.KindSimple:
		res, want = faults.NameResolver(faults.KindSimple, m), resolver.ErrPackageNotFound
	case faults.KindGobuild:
		res, want = faults.NameResolver(faults.KindGobuild, m), faults.ErrStubNotFound
	default:
		return
	}
	d, err := buildTree(w, truth)
	if err != nil {
		return
	}
	alias := copyAlias(w.alias)
	before := dump.String(d, dump.Options{})
	var out []byte
	var emitted bool
	var rerr error
	if pi := core.Catch(func() { out, emitted, rerr = restoreWith(w, d, res, alias) }); pi != nil {
		run.Fail("c17/restore/panic", pi.Sig(), "restore panicked on natural not-found of %s: %s", missing, pi.Value)
		return
	}
	run.Count("fault-fired/natural-notfound")
	if rerr == nil {
		run.Fail("c17/restore/no-error", "natural", "resolver cannot name %s but restore returned no error", missing)
		return
	}
	if !errors.Is(rerr, want) {
		run.Fail("c17/restore/error-not-wrapped", "natural", "error %q does not wrap %v", rerr, want)
		return
	}
	if emitted || len(out) > 0 {
		run.Fail("c17/restore/output-emitted", "natural", "restore emitted output together with error %v", rerr)
		return
	}
	if a := dump.String(d, dump.Options{}); a != before {
		run.Fail("c17/restore/input-modified", "natural:"+dump.DiffField(before, a), "dst.File modified by failed restore: %s", dump.FirstDiff(before, a))
		return
	}
	if pi := core.Catch(func() {
		out, _, rerr = restoreWith(w, d, faults.NameResolver(w.resKind, truth), alias)
	}); pi != nil || rerr != nil {
		run.Fail("c17/restore/retry-error", "natural", "retry failed: %v %v", pi, rerr)
		return
	}
	if !bytes.Equal(out, twinBytes) {
		run.Fail("c17/restore/retry-mismatch", "natural", "retry after natural not-found of %s differs from the failure-free result", missing)
	}
}

// tableResolver is a caller-supplied DecoratorResolver that needs no *ast.File: it resolves
// `name.Sel` through a fixed name -> path table (the way a resolver backed by type information
// would). goast cannot be used where dst passes a nil file (isolated nodes, ParseDir).
type tableResolver map[string]string

func (t tableResolver) ResolveIdent(file *ast.File, parent ast.Node, parentField string, id *ast.Ident) (string, error) {
	se, ok := parent.(*ast.SelectorExpr)
	if !ok || parentField != "Sel" {
		return "", nil
	}
	x, ok := se.X.(*ast.Ident)
	if !ok || x.Obj != nil {
		return "", nil
	}
	return t[x.Name], nil
}

func tableFor(sp gen.Spec) tableResolver {
	t := tableResolver{}
	for _, im := range sp.Imports {
		if im.Alias == "_" || im.Alias == "." {
			continue
		}
		t[im.LocalName()] = im.Pkg.Path
	}
	return t
}

// nonFileFaults enumerates every fault position while decorating (a) one isolated declaration and
// (b) a directory through ParseDir, with a caller-supplied resolver. Obligations: no panic, the
// error wraps the fault, nothing is returned, and a retry equals the failure-free result.
func nonFileFaults(run *core.Run, w *workload, wkey string, cased func(string, func())) {
	table := tableFor(w.spec)
	// (a) an isolated node
	decorateNode := func(plan *faults.Plan) (out dst.Node, iw *faults.Ident, err error, pi *core.PanicInfo) {
		fset, af, perr := parse(w.spec.Src)
		if perr != nil {
			panic(perr)
		}
		var target ast.Node
		for _, d := range af.Decls {
			if gd, ok := d.(*ast.GenDecl); ok && gd.Tok == token.IMPORT {
				continue
			}
			target = d
			break
		}
		if target == nil {
			return nil, nil, nil, nil
		}
		iw = &faults.Ident{Inner: table, Plan: plan}
		dec := decorator.NewDecoratorWithImports(fset, LocalPath, iw)
		pi = core.Catch(func() { out, err = dec.DecorateNode(target) })
		return
	}
	ref, iw, err, pi := decorateNode(nil)
	if iw != nil && pi == nil && err == nil {
		want := dump.String(ref, dump.Options{})
		for k := 1; k <= iw.Calls && !run.Failed(); k++ {
			k := k
			cased(fmt.Sprintf("%s:node:%d", wkey, k), func() {
				plan := &faults.Plan{KthCall: k}
				out, fw, err, pi := decorateNode(plan)
				run.Event("nodefault #%d err=%v", k, err != nil)
				if pi != nil {
					run.Fail("c17/decorate/panic", "node|"+pi.Sig(), "DecorateNode of an isolated declaration panicked with a fault at call %d: %s\n%s", k, pi.Value, pi.Stack)
					return
				}
				if fw.Fired == 0 {
					return
				}
				run.Count("fault-fired/ident-kth(isolated-node)")
				if err == nil || !errors.Is(err, plan.Err) {
					run.Fail("c17/decorate/error-not-wrapped", "node", "DecorateNode with a fault at call %d returned %v", k, err)
					return
				}
				if out != nil {
					run.Fail("c17/decorate/tree-emitted", "node", "DecorateNode returned a node together with the error")
					return
				}
				again, _, err2, pi2 := decorateNode(nil)
				if pi2 != nil || err2 != nil || dump.String(again, dump.Options{}) != want {
					run.Fail("c17/decorate/retry-mismatch", "node", "retry after a fault at call %d differs from the failure-free result (%v %v)", k, pi2, err2)
				}
			})
		}
	}
	// (b) a directory
	dir, derr := ioutil.TempDir("", "dstsim-c17-")
	if derr != nil {
		panic("harness: " + derr.Error())
	}
	defer os.RemoveAll(dir)
	second := strings.Replace(w.spec.Src, "package "+w.spec.PkgName, "package "+w.spec.PkgName+"\n\n// second file", 1)
	ioutil.WriteFile(filepath.Join(dir, "a.go"), []byte(w.spec.Src), 0644)
	ioutil.WriteFile(filepath.Join(dir, "b.go"), []byte(second), 0644)
	// a second package in the same directory (as an external test package would be)
	other := strings.Replace(w.spec.Src, "package "+w.spec.PkgName, "package "+w.spec.PkgName+"_test", 1)
	ioutil.WriteFile(filepath.Join(dir, "c.go"), []byte(other), 0644)
	parseDir := func(plan *faults.Plan) (out string, n int, iw *faults.Ident, err error, pi *core.PanicInfo) {
		iw = &faults.Ident{Inner: table, Plan: plan}
		dec := decorator.NewDecoratorWithImports(token.NewFileSet(), LocalPath, iw)
		pi = core.Catch(func() {
			pkgs, e := dec.ParseDir(dir, nil, 0)
			err = e
			n = len(pkgs)
			var names []string
			for name := range pkgs {
				names = append(names, name)
			}
			sort.Strings(names)
			for _, name := range names {
				var fns []string
				for fn := range pkgs[name].Files {
					fns = append(fns, fn)
				}
				sort.Strings(fns)
				for _, fn := range fns {
					out += filepath.Base(fn) + "\n" + dump.String(pkgs[name].Files[fn], dump.Options{})
				}
			}
		})
		return
	}
	want, _, iw2, err, pi := parseDir(nil)
	if pi != nil || err != nil {
		run.Count("parsedir-faultfree-failed")
		return
	}
	step := 1
	if iw2.Calls > 24 {
		step = iw2.Calls / 24
	}
	for k := 1; k <= iw2.Calls && !run.Failed(); k += step {
		k := k
		cased(fmt.Sprintf("%s:dir:%d", wkey, k), func() {
			plan := &faults.Plan{KthCall: k}
			_, n, fw, err, pi := parseDir(plan)
			run.Event("dirfault #%d err=%v", k, err != nil)
			if pi != nil {
				run.Fail("c17/decorate/panic", "dir|"+pi.Sig(), "ParseDir panicked with a resolver fault at call %d: %s\n%s", k, pi.Value, pi.Stack)
				return
			}
			if fw.Fired == 0 {
				return
			}
			run.Count("fault-fired/ident-kth(ParseDir)")
			if err == nil || !errors.Is(err, plan.Err) {
				run.Fail("c17/decorate/error-not-wrapped", "dir", "ParseDir with a fault at call %d returned %v", k, err)
				return
			}
			if n != 0 {
				run.Fail("c17/decorate/tree-emitted", "dir", "ParseDir returned %d packages together with the error", n)
				return
			}
			again, _, _, err2, pi2 := parseDir(nil)
			if pi2 != nil || err2 != nil || again != want {
				run.Fail("c17/decorate/retry-mismatch", "dir", "ParseDir retry after a fault at call %d differs from the failure-free result", k)
			}
		})
	}
}

// brokenSourceFaults: Decorator.ParseFile on a source that go/parser rejects but still returns a
// partial file for. Failure-free, ParseFile returns the tree together with the parse error; with a
// resolver fault it must return the resolver's error (wrapped), no tree, and a retry must equal the
// failure-free call.
func brokenSourceFaults(run *core.Run, w *workload, truth map[string]string, wkey string, cased func(string, func())) {
	var broken string
	for tries := 0; tries < 8 && broken == ""; tries++ {
		kind := []int{faults.SfDropRange, faults.SfSyntaxByte, faults.SfTruncate, faults.SfDupRange}[run.T.Draw(4)]
		cand, _ := faults.Corrupt(run.T, []byte(w.spec.Src), kind)
		f, err := parser.ParseFile(token.NewFileSet(), "b.go", cand, parser.ParseComments)
		if err != nil && f != nil && f.Name != nil && f.Package.IsValid() {
			broken = string(cand)
		}
	}
	if broken == "" {
		return
	}
	parseFile := func(plan *faults.Plan) (out *dst.File, env *decoEnv, err error, pi *core.PanicInfo) {
		env = newDecoEnv(w, truth, plan, nil)
		dec := decorator.NewDecoratorWithImports(token.NewFileSet(), LocalPath, env.iw)
		pi = core.Catch(func() { out, err = dec.ParseFile("b.go", broken, 0) })
		return
	}
	ref, env, perr, pi := parseFile(nil)
	if pi != nil || ref == nil || perr == nil || faults.IsInjected(perr) {
		run.Count("broken-source-skipped")
		return
	}
	want := dump.String(ref, dump.Options{})
	N := env.iw.Calls
	step := 1
	if N > 30 {
		step = N / 30
	}
	run.Count("broken-source-workloads")
	for k := 1; k <= N && !run.Failed(); k += step {
		k := k
		cased(fmt.Sprintf("%s:broken:%s:%d", wkey, dump.HashString(broken), k), func() {
			plan := &faults.Plan{KthCall: k}
			out, fenv, err, pi := parseFile(plan)
			run.Event("brokenfault #%d err=%v", k, err != nil)
			if pi != nil {
				run.Fail("c17/decorate/panic", "broken|"+pi.Sig(), "ParseFile of a source with syntax errors panicked with a resolver fault at call %d: %s\n%s", k, pi.Value, pi.Stack)
				return
			}
			if fenv.iw.Fired == 0 {
				return
			}
			run.Count("fault-fired/ident-kth(source-with-syntax-errors)")
			if err == nil || !errors.Is(err, plan.Err) {
				run.Fail("c17/decorate/error-not-wrapped", "broken", "ParseFile of a source with syntax errors, resolver fault at call %d: returned %q, which does not wrap the resolver's error", k, err)
				return
			}
			if out != nil {
				run.Fail("c17/decorate/tree-emitted", "broken", "ParseFile returned a tree together with the resolver error")
				return
			}
			again, _, err2, pi2 := parseFile(nil)
			if pi2 != nil || again == nil || err2 == nil || err2.Error() != perr.Error() || dump.String(again, dump.Options{}) != want {
				run.Fail("c17/decorate/retry-mismatch", "broken", "retry after a fault at call %d differs from the failure-free call", k)
			}
		})
	}
}
