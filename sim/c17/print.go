package c17

import (
	"go/ast"
	"go/format"
	"go/token"
	"io"
)

func printAst(w io.Writer, fset *token.FileSet, f *ast.File) error {
	return format.Node(w, fset, f)
}
