// Package corpus is the fixed "stored data" of the C15 engine: real Go sources (copied from the
// Go distribution's go/printer and go/parser test data and a few standard packages, so that the
// check is hermetic) plus a handful of hand-written edge cases. Not every entry parses cleanly:
// the parser test data contains deliberate syntax errors.
package corpus

import (
	"embed"
	"sort"
)

//go:embed files/*.txt
var fs embed.FS

type File struct {
	Name string
	Src  string
}

var files []File

// Edge cases written by hand.
var edge = []File{
	{"edge/empty", ""},
	{"edge/package-only", "package p"},
	{"edge/package-nl", "package p\n"},
	{"edge/bom", "\xef\xbb\xbfpackage p\n\nvar x = 1\n"},
	{"edge/crlf", "package p\r\n\r\n// c\r\nfunc f() {\r\n\tx := `a\r\nb`\r\n\t_ = x\r\n}\r\n"},
	{"edge/no-trailing-newline", "package p\n\nfunc f() {} // c"},
	{"edge/only-comment", "// just a comment\n"},
	{"edge/comment-before-package", "/* a */ /* b */\n// c\n\npackage /* d */ p // e\n"},
	{"edge/build-tags", "//go:build linux && !cgo\n// +build linux,!cgo\n\n// Package p.\npackage p\n\nimport \"C\"\n"},
	{"edge/raw-strings", "package p\n\nvar s = `\n\n// not a comment\n\n` + `x`\n\nvar t = \"a\" +\n\t`b\nc`\n"},
	{"edge/labels", "package p\n\nfunc f() {\nL:\n\tfor {\n\t\tbreak L // c\n\t}\n\tgoto M\nM: // d\n}\n"},
	{"edge/nested", "package p\n\nvar x = [][]map[string][]func(int) (int, error){{{\"a\": {func(int) (int, error) { return 0, nil }}}}}\n"},
	{"edge/dot-import", "package p\n\nimport . \"fmt\"\n\nfunc f() { Println() }\n"},
	{"edge/dup-import-names", "package p\n\nimport (\n\t\"a.com/x\"\n\t\"b.com/x\"\n)\n\nvar _ = x.A\n"},
	{"edge/unquoted-import", "package p\n\nimport fmt\n\nvar _ = fmt.A\n"},
	{"edge/bad-import-path", "package p\n\nimport \"a\\xb\"\n\nvar _ = 1\n"},
	{"edge/generic", "package p\n\ntype S[T any, U interface{ ~int | ~string }] struct{ a T }\n\nfunc (s *S[T, U]) m() {}\n\nvar _ = f[int, string](1)\n"},
	{"edge/semicolons", "package p; import \"fmt\"; func f() { fmt.Println(); ; }; var x int\n"},
	{"edge/comments-everywhere", "package p\n\nfunc /*a*/ f /*b*/ ( /*c*/ a /*d*/ int /*e*/ ) /*f*/ int /*g*/ { /*h*/\n\treturn /*i*/ a /*j*/ + /*k*/ 1 /*l*/ // m\n\t// n\n} // o\n\n// p\n"},
	{"edge/leading-blank-lines", "\n\n\npackage p\n\nvar x = 1\n"},
	{"edge/leading-blank-lines-comment", "\n\n// c\n\n\npackage p\n"},
	{"edge/odd-import-paths", "package p\n\nimport (\n\t\"net/\"\n\t\"/\"\n\t\"a//b\"\n\t\"./x\"\n\t\"a/v2\"\n\t\"a.b/c.v3\"\n\tq \"\"\n)\n\nvar _ = net.A + b.B + x.C + v2.D + c.E + q.F\n"},
	{"edge/import-trailing-slash", "package p\n\nimport \"net/\"\n\nfunc f() { net.Dial() }\n"},
	{"edge/split-selector", "package p\n\nimport \"fmt\"\n\nfunc f() {\n\tfmt.\n\t\tPrintln(fmt.\n\t\t\tSprint(1))\n\tvar x fmt.\n\t\tStringer\n\t_ = x\n}\n"},
	{"edge/import-last-element-vendor", "package p\n\nimport (\n\t\"example.com/tools/vendor\"\n\t\"vendor\"\n\tv2 \"a.b/vendor/c.d/vendor\"\n)\n\nfunc f() {\n\tvendor.Run(v2.X)\n}\n"},
	{"edge/line-directive-big", "package p\n\n//line gram.y:1000\nfunc f() {\n\n\tx := 1\n\t_ = x\n}\n"},
	{"edge/line-directive-top", "//line expr.y:80\npackage p\n\nimport \"fmt\"\n\n//line yacctab:1\nvar _ = fmt.Sprint\n\n//line expr.y:4000\n\nfunc g() {}\n"},
	{"edge/line-directive-inline", "package p\n\nfunc f() {\n\t/*line f.go:500:1*/ x := 1\n\n\t_ = x /*line :30*/\n}\n"},
	{"edge/line-directive-small", "package p\n\n\n\n\n\n//line a.go:2\nvar x = `\n\n`\n\n/* c\n\n*/\nvar y = 1\n"},
	{"edge/select-switch", "package p\n\nfunc f(c chan int) {\n\tselect {\n\t// a\n\tcase <-c:\n\t\t// b\n\tdefault:\n\t}\n\tswitch x := 1; {\n\tcase x > 0:\n\t\tfallthrough\n\tdefault:\n\t\t// c\n\t}\n}\n"},
}

func init() {
	ents, err := fs.ReadDir("files")
	if err != nil {
		panic(err)
	}
	for _, e := range ents {
		b, err := fs.ReadFile("files/" + e.Name())
		if err != nil {
			panic(err)
		}
		files = append(files, File{Name: e.Name(), Src: string(b)})
	}
	sort.Slice(files, func(i, j int) bool { return files[i].Name < files[j].Name })
	files = append(edge, files...)
}

// Files returns the corpus in a fixed order.
func Files() []File { return files }

// Small returns the corpus entries of at most max bytes.
func Small(max int) []File {
	var out []File
	for _, f := range files {
		if len(f.Src) <= max {
			out = append(out, f)
		}
	}
	return out
}
