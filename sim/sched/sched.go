//go:build linux

// Package sched serialises caller goroutines deterministically WITHOUT creating happens-before
// edges between them, so that Go's race detector still judges dst's own synchronisation.
//
// All scheduler state (turn word, alive mask, step counter, PRNG state, change points, done and
// abort flags) lives in a region obtained with a raw mmap syscall and is accessed through
// sync/atomic on unsafe pointers. The race runtime ignores addresses outside the Go heap and data
// segments (plain accesses are dropped, atomics take the racecallatomic_ignore path), so neither a
// hand-off nor a decision synchronises two workers in the detector's eyes. There is no scheduler
// goroutine: the worker that reaches a decision point decides and hands the turn over; parked
// workers spin on the turn word with runtime.Gosched (run with GOMAXPROCS=1).
package sched

import (
	"fmt"
	"runtime"
	"sync/atomic"
	"syscall"
	"unsafe"
)

const (
	offTurn     = 0  // int32: id of the worker allowed to run, -1 none
	offAlive    = 4  // uint32 bitmask
	offStep     = 8  // uint32 global decision-point counter
	offSwitches = 12 // uint32 context switches
	offAbort    = 16 // uint32 set when a hang is detected
	offDone     = 20 // uint32 bitmask of finished workers
	offPolicy   = 24
	offParam    = 28 // policy parameter (quantum / switch permille)
	offNCP      = 32 // number of change points
	offCPNext   = 36 // next change point index
	offRngLo    = 40
	offRngHi    = 44
	offBlocked  = 48 // uint32: spin iterations observed without progress (diagnostic)
	offActive   = 52 // uint32: 1 while worker goroutines are running under the scheduler
	offDepth    = 56 // int32: critical-section nesting of the turn holder (no switch while > 0)
	offCP       = 64 // change points: pairs (step, target) uint32
	maxCP       = 256
	regionSize  = offCP + maxCP*8 + 64

	// SpinLimit is the number of consecutive spin iterations without any global step after which a
	// parked worker declares a hang. While the turn holder is runnable a spinner gets a time slice
	// only when the holder is pre-empted, i.e. a few hundred iterations per second; millions of
	// iterations without progress therefore mean the holder is blocked (e.g. on a leaked lock).
	SpinLimit = 3000000
)

const (
	PolicyChangePoints = iota // run the current worker; switch only at tape-chosen (step, target) points
	PolicyRoundRobin          // switch to the next alive worker every Param decision points
	PolicySticky              // switch with probability Param/1000 to a PRNG-chosen alive worker
	NumPolicies
)

var PolicyNames = [...]string{"change-points", "round-robin", "sticky-random"}

// Config is drawn from the tape by the engine before the workers start.
type Config struct {
	Workers      int
	Policy       int
	Param        int
	Seed         uint64      // PRNG seed for PolicySticky
	ChangePoints [][2]uint32 // (step, target), sorted by step
	First        int         // worker that runs first
}

type Sched struct {
	mem  []byte
	base unsafe.Pointer
	n    int
}

// New maps the region. One Sched can be Reset and reused for many runs.
func New() (*Sched, error) {
	addr, _, errno := syscall.Syscall6(syscall.SYS_MMAP, 0, uintptr(regionSize), syscall.PROT_READ|syscall.PROT_WRITE, syscall.MAP_ANON|syscall.MAP_PRIVATE, ^uintptr(0), 0)
	if errno != 0 {
		return nil, fmt.Errorf("mmap: %v", errno)
	}
	s := &Sched{}
	s.base = *(*unsafe.Pointer)(unsafe.Pointer(&addr)) // not a Go pointer: never moves, never scanned into
	return s, nil
}

func (s *Sched) i32(off uintptr) *int32   { return (*int32)(unsafe.Pointer(uintptr(s.base) + off)) }
func (s *Sched) u32(off uintptr) *uint32  { return (*uint32)(unsafe.Pointer(uintptr(s.base) + off)) }
func (s *Sched) ld(off uintptr) uint32    { return atomic.LoadUint32(s.u32(off)) }
func (s *Sched) st(off uintptr, v uint32) { atomic.StoreUint32(s.u32(off), v) }

// Reset prepares a run. Called by the main goroutine before any worker exists.
func (s *Sched) Reset(c Config) {
	if c.Workers < 1 || c.Workers > 30 {
		panic("sched: bad worker count")
	}
	s.n = c.Workers
	atomic.StoreInt32(s.i32(offTurn), -1)
	s.st(offAlive, (1<<uint(c.Workers))-1)
	s.st(offStep, 0)
	s.st(offSwitches, 0)
	s.st(offAbort, 0)
	s.st(offDone, 0)
	s.st(offPolicy, uint32(c.Policy))
	s.st(offParam, uint32(c.Param))
	s.st(offRngLo, uint32(c.Seed))
	s.st(offRngHi, uint32(c.Seed>>32))
	s.st(offBlocked, 0)
	s.st(offActive, 0)
	s.st(offDepth, 0)
	n := len(c.ChangePoints)
	if n > maxCP {
		n = maxCP
	}
	s.st(offNCP, uint32(n))
	s.st(offCPNext, 0)
	for i := 0; i < n; i++ {
		s.st(offCP+uintptr(i)*8, c.ChangePoints[i][0])
		s.st(offCP+uintptr(i)*8+4, c.ChangePoints[i][1])
	}
}

// Go releases the first worker. Called by the main goroutine after all workers were started.
func (s *Sched) Go(first int) {
	s.st(offActive, 1)
	atomic.StoreInt32(s.i32(offTurn), int32(first))
}

// Active reports whether worker goroutines are running under the scheduler.
func (s *Sched) Active() bool { return s.ld(offActive) != 0 }

// Deactivate is called by the main goroutine once the workers are done.
func (s *Sched) Deactivate() { s.st(offActive, 0) }

// Enter / Leave bracket a critical section of the turn holder: no switch happens inside.
func (s *Sched) Enter() { s.st(offDepth, s.ld(offDepth)+1) }
func (s *Sched) Leave() {
	if d := s.ld(offDepth); d > 0 {
		s.st(offDepth, d-1)
	}
}
func (s *Sched) Depth() uint32 { return s.ld(offDepth) }

func (s *Sched) rng() uint64 {
	st := uint64(s.ld(offRngLo)) | uint64(s.ld(offRngHi))<<32
	st += 0x9e3779b97f4a7c15
	s.st(offRngLo, uint32(st))
	s.st(offRngHi, uint32(st>>32))
	z := st
	z = (z ^ (z >> 30)) * 0xbf58476d1ce4e5b9
	z = (z ^ (z >> 27)) * 0x94d049bb133111eb
	return z ^ (z >> 31)
}

// Aborted is the value panicked with by a worker that leaves because the run was aborted.
type Aborted struct{}

// Wait parks the calling worker until it holds the turn. Panics with Aborted{} when a hang was
// declared.
func (s *Sched) Wait(me int) {
	spins := 0
	last := s.ld(offStep)
	for atomic.LoadInt32(s.i32(offTurn)) != int32(me) {
		if s.ld(offAbort) != 0 {
			panic(Aborted{})
		}
		runtime.Gosched()
		spins++
		if spins&0xfff == 0 {
			if cur := s.ld(offStep); cur != last {
				last = cur
				spins = 0
			} else if spins >= SpinLimit && atomic.LoadInt32(s.i32(offTurn)) >= 0 {
				s.st(offBlocked, uint32(spins))
				s.st(offAbort, 1)
				panic(Aborted{})
			}
		}
	}
}

func (s *Sched) nextAlive(after int, alive uint32) int {
	for i := 1; i <= s.n; i++ {
		c := (after + i) % s.n
		if alive&(1<<uint(c)) != 0 {
			return c
		}
	}
	return -1
}

func (s *Sched) nthAlive(k int, alive uint32) int {
	for c := 0; c < s.n; c++ {
		if alive&(1<<uint(c)) != 0 {
			if k == 0 {
				return c
			}
			k--
		}
	}
	return -1
}

func popcount(x uint32) int {
	n := 0
	for ; x != 0; x &= x - 1 {
		n++
	}
	return n
}

// Yield is a decision point of worker me: it may hand the turn to another worker and then parks
// until the turn comes back. Returns the global step number of this decision point.
func (s *Sched) Yield(me int) uint32 {
	if s.ld(offDepth) > 0 {
		// inside a critical section of dst or a loop over a map (instrumented builds only): never
		// park a lock holder, and do not count statements whose number depends on map order
		return s.ld(offStep)
	}
	step := s.ld(offStep) + 1
	s.st(offStep, step)
	alive := s.ld(offAlive)
	next := me
	switch s.ld(offPolicy) {
	case PolicyChangePoints:
		i := s.ld(offCPNext)
		n := s.ld(offNCP)
		for i < n && s.ld(offCP+uintptr(i)*8) < step {
			i++
		}
		if i < n && s.ld(offCP+uintptr(i)*8) == step {
			t := int(s.ld(offCP + uintptr(i)*8 + 4))
			i++
			if alive&(1<<uint(t%s.n)) != 0 {
				next = t % s.n
			} else if c := s.nextAlive(me, alive); c >= 0 {
				next = c
			}
		}
		s.st(offCPNext, i)
	case PolicyRoundRobin:
		q := s.ld(offParam)
		if q == 0 {
			q = 1
		}
		if step%q == 0 {
			if c := s.nextAlive(me, alive); c >= 0 {
				next = c
			}
		}
	case PolicySticky:
		r := s.rng()
		if uint32(r%1000) < s.ld(offParam) {
			if c := s.nthAlive(int((r>>20)%uint64(popcount(alive))), alive); c >= 0 {
				next = c
			}
		}
	}
	if next != me {
		s.st(offSwitches, s.ld(offSwitches)+1)
		atomic.StoreInt32(s.i32(offTurn), int32(next))
		s.Wait(me)
	}
	return step
}

// Switched reports the number of context switches so far (to tell whether a Yield switched).
func (s *Sched) SwitchCount() uint32 { return s.ld(offSwitches) }

// Finish marks worker me as finished and hands the turn to the next alive worker.
func (s *Sched) Finish(me int) {
	s.st(offDepth, 0)
	alive := s.ld(offAlive) &^ (1 << uint(me))
	s.st(offAlive, alive)
	s.st(offDone, s.ld(offDone)|(1<<uint(me)))
	next := s.nextAlive(me, alive)
	atomic.StoreInt32(s.i32(offTurn), int32(next))
}

// AwaitAll is called by the main goroutine: it polls until every worker finished or a hang was
// declared. It returns the mask of finished workers and whether the run was aborted. Polling the
// mmap'd flags creates no happens-before edge; the caller must join the finished workers through a
// real synchronisation (e.g. a channel) before reading their results.
func (s *Sched) AwaitAll() (done uint32, aborted bool) {
	all := uint32(1<<uint(s.n)) - 1
	spins := 0
	last := s.ld(offStep)
	lastDone := s.ld(offDone)
	for {
		d := s.ld(offDone)
		if d == all {
			return d, false
		}
		// the same no-progress rule as in Wait, for the case where the blocked worker is the last
		// one alive and nobody else is parked to notice
		spins++
		if spins&0xfff == 0 {
			if cur := s.ld(offStep); cur != last || d != lastDone {
				last, lastDone, spins = cur, d, 0
			} else if spins >= SpinLimit && atomic.LoadInt32(s.i32(offTurn)) >= 0 {
				s.st(offBlocked, uint32(spins))
				s.st(offAbort, 1)
			}
		}
		if s.ld(offAbort) != 0 {
			// give parked workers a chance to observe the abort and leave
			for i := 0; i < 1000; i++ {
				runtime.Gosched()
			}
			return s.ld(offDone), true
		}
		runtime.Gosched()
	}
}

func (s *Sched) Steps() uint32    { return s.ld(offStep) }
func (s *Sched) Switches() uint32 { return s.ld(offSwitches) }
func (s *Sched) Turn() int        { return int(atomic.LoadInt32(s.i32(offTurn))) }
func (s *Sched) Blocked() uint32  { return s.ld(offBlocked) }
