#!/bin/bash
# usage: tools_patch.sh <patch.diff (absolute)> <PROP> [tier]  -- apply a patch to a SCRATCH worktree of /repo and
# run the check against it (VERIF_REPO); /repo itself is never touched. Binaries, work files, replays and evidence of
# such a run go to a scratch directory (VERIF_SCRATCH): evidence under /verif must come from the unchanged tree.
set -u
M=$(mktemp -d /tmp/repo_mut.XXXXXX); rmdir $M
S=$(mktemp -d /tmp/vscr.XXXXXX)
git -C /repo worktree prune
git -C /repo worktree add -q --detach $M HEAD || exit 9
git -C $M apply "$1" || { echo "patch does not apply"; git -C /repo worktree remove --force $M; rm -rf $S; exit 9; }
(cd $M && GOFLAGS=-mod=mod GOPROXY=off GOSUMDB=off GOTOOLCHAIN=local go build ./... ) || { echo "DOES NOT COMPILE"; git -C /repo worktree remove --force $M; rm -rf $S; exit 9; }
cd /verif && VERIF_REPO=$M VERIF_SCRATCH=$S ./check "$2" "${3:-quick}" > $S/out.txt 2>&1; rc=$?
cp $S/out.txt /tmp/patch_out.txt
grep -E "SUMMARY|VIOLATION|signature|INFRA|KNOWN" $S/out.txt | cut -c1-260; echo "rc=$rc"
git -C /repo worktree remove --force $M
rm -rf $S
