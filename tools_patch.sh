#!/bin/bash
# usage: tools_patch.sh <patch.diff (absolute)> <PROP> [tier]  -- apply a patch to /repo, run the check, revert
# (the committed evidence files are put back afterwards: evidence must come from the unchanged tree)
set -u
git -C /repo apply "$1" || { echo "patch does not apply"; exit 9; }
(cd /repo && GOFLAGS=-mod=mod GOPROXY=off GOSUMDB=off GOTOOLCHAIN=local go build ./... ) || { echo "DOES NOT COMPILE"; git -C /repo checkout -- .; exit 9; }
rm -rf /tmp/evidence.bak && cp -r /verif/evidence /tmp/evidence.bak
cd /verif && ./check "$2" "${3:-quick}" > /tmp/patch_out.txt 2>&1; rc=$?
grep -E "SUMMARY|VIOLATION|signature|INFRA|KNOWN" /tmp/patch_out.txt | cut -c1-260; echo "rc=$rc"
git -C /repo checkout -- .
rm -rf /verif/evidence && mv /tmp/evidence.bak /verif/evidence
rm -f /verif/replays/*.json
