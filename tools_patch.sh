#!/bin/bash
# usage: tools_patch.sh <patch.diff (absolute)> <PROP> [tier]  -- apply a patch to a SCRATCH worktree of /repo and
# run the check against it (VERIF_REPO); /repo itself is never touched. The committed evidence files are put back
# afterwards: evidence must come from the unchanged tree.
set -u
M=/tmp/repo_mut
git -C /repo worktree remove --force $M 2>/dev/null; git -C /repo worktree prune
git -C /repo worktree add -q $M HEAD || exit 9
git -C $M apply "$1" || { echo "patch does not apply"; git -C /repo worktree remove --force $M; exit 9; }
(cd $M && GOFLAGS=-mod=mod GOPROXY=off GOSUMDB=off GOTOOLCHAIN=local go build ./... ) || { echo "DOES NOT COMPILE"; git -C /repo worktree remove --force $M; exit 9; }
rm -rf /tmp/evidence.bak && cp -r /verif/evidence /tmp/evidence.bak
cd /verif && VERIF_REPO=$M ./check "$2" "${3:-quick}" > /tmp/patch_out.txt 2>&1; rc=$?
grep -E "SUMMARY|VIOLATION|signature|INFRA|KNOWN" /tmp/patch_out.txt | cut -c1-260; echo "rc=$rc"
git -C /repo worktree remove --force $M
rm -rf /verif/evidence && mv /tmp/evidence.bak /verif/evidence
rm -f /verif/replays/*.json
