#!/bin/bash
# run every own sensitivity patch (seeded/own/<prop>_*.diff) against its property's quick check; table to seeded/own/RESULTS.txt
cd /verif
touch seeded/own/RESULTS.txt
for f in seeded/own/${1:-c}*.diff; do
  n=$(basename $f .diff); P=$(echo $n | cut -c1-3 | tr a-z A-Z)
  out=$(./tools_patch.sh /verif/$f $P 2>&1)
  rc=$(echo "$out" | grep -o "rc=[0-9]*" | tail -1)
  sig=$(echo "$out" | grep "signature:" | head -2 | sed 's/  signature: //' | cut -c1-110 | tr '\n' ' ')
  echo "$n $P $rc $sig" | tee -a seeded/own/RESULTS.txt
done
