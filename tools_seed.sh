#!/bin/bash
# usage: tools_seed.sh <id> <PROP> <src-dir with patch.diff demo_test.go notes.md> <demo pkg dir rel> <test regex> [race]
# 1. confirms in a scratch worktree: demo fails with the patch, passes without, baseline passes with it
# 2. runs ./check PROP quick against a scratch worktree with the patch (VERIF_REPO), outputs to a scratch dir (VERIF_SCRATCH)
# 3. files everything under /verif/seeded/<id>/
set -u
ID=$1; PROP=$2; SRC=$3; PKG=$4; RE=$5; RACE=${6:-}
export GOFLAGS=-mod=mod GOPROXY=off GOSUMDB=off GOTOOLCHAIN=local
WT=/tmp/seedwt-$ID
git -C /repo worktree remove --force $WT 2>/dev/null
git -C /repo worktree add -q $WT HEAD || exit 9
cp $SRC/demo_test.go $WT/$PKG/zz_seed_demo_test.go
RF=""; [ -n "$RACE" ] && RF="-race"
(cd $WT && go test $RF -vet=off -count=1 -run "$RE" ./$PKG/ > /tmp/seed-$ID-without.txt 2>&1); WO=$?
git -C $WT apply $SRC/patch.diff || { echo "PATCH DOES NOT APPLY"; git -C /repo worktree remove --force $WT; exit 9; }
(cd $WT && go build ./... && go build -tags verif ./...) || { echo "DOES NOT COMPILE"; git -C /repo worktree remove --force $WT; exit 9; }
(cd $WT && go test $RF -vet=off -count=1 -run "$RE" ./$PKG/ > /tmp/seed-$ID-with.txt 2>&1); WI=$?
rm $WT/$PKG/zz_seed_demo_test.go
BL=$(python3 /verif/tools_baseline.py $WT | head -1)
git -C /repo worktree remove --force $WT
echo "demo without patch rc=$WO (want 0); with patch rc=$WI (want !=0); baseline with patch: $BL"
M=$(mktemp -d /tmp/repo_mut.XXXXXX); rmdir $M
S=$(mktemp -d /tmp/vscr.XXXXXX)
git -C /repo worktree prune
git -C /repo worktree add -q --detach $M HEAD && git -C $M apply $SRC/patch.diff
cd /verif && VERIF_REPO=$M VERIF_SCRATCH=$S ./check $PROP quick > /tmp/seed-$ID-check.txt 2>&1; RC=$?
git -C /repo worktree remove --force $M; rm -rf $S
grep -E "SUMMARY|VIOLATION|signature|INFRA" /tmp/seed-$ID-check.txt | cut -c1-220
echo "check rc=$RC"
mkdir -p /verif/seeded/$ID
cp $SRC/patch.diff $SRC/demo_test.go $SRC/notes.md /verif/seeded/$ID/
SIGS=$(grep -E "^  signature:" /tmp/seed-$ID-check.txt | sed 's/^  signature: //' | python3 -c "import sys,json; print(json.dumps([l.strip() for l in sys.stdin]))")
python3 - <<PY
import json
meta={"id":"$ID","property":"$PROP","source":"independent sub-agent given only the property text and a scratch worktree",
 "demo":{"copy_to":"$PKG/","run":"go test $RF -vet=off -count=1 -run '$RE' ./$PKG/","rc_without_patch":$WO,"rc_with_patch":$WI},
 "baseline_with_patch":"$BL","check":{"cmd":"./check $PROP quick","rc":$RC,"signatures":$SIGS},
 "detected": $RC==1}
json.dump(meta,open("/verif/seeded/$ID/meta.json","w"),indent=1)
PY
